#!/bin/bash
# seedconfirm.sh <dir with patch.diff demo.sh ...>: confirm in a scratch worktree that the demo passes on the
# unchanged tree and fails with the patch, and that the tree still builds and passes its tests with the patch.
set -u
src=$1
export GOFLAGS=-mod=mod GOPROXY=off GOSUMDB=off GOTOOLCHAIN=local
wt=$(mktemp -d /tmp/seedconf-XXXXXX); rmdir "$wt"
git -C /repo worktree add -q --detach "$wt" ${BASE:-HEAD} || exit 2
trap 'git -C /repo worktree remove --force "$wt" 2>/dev/null; rm -rf "$wt"' EXIT
( cd "$src" && timeout 600 bash ./demo.sh "$wt" >/tmp/seedconf_orig.log 2>&1 ); o=$?
( cd "$wt" && git apply "$src/patch.diff" ) || { echo "patch does not apply"; exit 2; }
( cd "$wt" && go build ./... ) || { echo "does not build"; exit 2; }
t=$(cd "$wt" && go test -vet=off -count=1 ./... 2>&1 | grep -v "no test files" | grep -vc "^ok")
( cd "$src" && timeout 600 bash ./demo.sh "$wt" >/tmp/seedconf_patched.log 2>&1 ); p=$?
echo "demo on unchanged tree: exit $o; demo with patch: exit $p; repo test non-ok lines with patch: $t"
( cd "$wt" && git status --short | grep -v '^ M' | head -3 )
