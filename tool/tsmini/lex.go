// Package tsmini is a front end and symbolic evaluator for exactly the TypeScript subset
// yaccgo emits (plus the harness epilogue): const/var/let, classes with fields, constructor
// and methods, functions, if/else, while, switch/case/break, return, number/string/array/
// object literals, new, member/index access, calls, .length/.push/.slice, console.error,
// the usual comparison and arithmetic operators. Anything else is reported as unsupported.
package tsmini

import (
	"fmt"
	"strings"
)

type tokKind int

const (
	tEOF tokKind = iota
	tIdent
	tNumber
	tString
	tPunct
)

type token struct {
	kind tokKind
	text string
	pos  int // byte offset
	end  int
	nl   bool // preceded by a line break
}

type SyntaxError struct {
	Pos int
	Msg string
}

func (e *SyntaxError) Error() string { return fmt.Sprintf("tsmini: offset %d: %s", e.Pos, e.Msg) }

var puncts = []string{
	"===", "!==", "...", "==", "!=", "<=", ">=", "&&", "||", "++", "--", "+=", "-=", "*=", "=>",
	"{", "}", "(", ")", "[", "]", ";", ",", ".", ":", "=", "<", ">", "+", "-", "*", "/", "%", "!", "?", "|", "&",
}

func lex(src string) ([]token, error) {
	var out []token
	i := 0
	nl := false
	for i < len(src) {
		c := src[i]
		switch {
		case c == '\n':
			nl = true
			i++
		case c == ' ' || c == '\t' || c == '\r':
			i++
		case strings.HasPrefix(src[i:], "//"):
			for i < len(src) && src[i] != '\n' {
				i++
			}
		case strings.HasPrefix(src[i:], "/*"):
			j := strings.Index(src[i+2:], "*/")
			if j < 0 {
				return nil, &SyntaxError{i, "unterminated comment"}
			}
			if strings.Contains(src[i:i+2+j], "\n") {
				nl = true
			}
			i += j + 4
		case c == '"' || c == '\'' || c == '`':
			j := i + 1
			for j < len(src) && src[j] != c {
				if src[j] == '\\' {
					j++
				}
				j++
			}
			if j >= len(src) {
				return nil, &SyntaxError{i, "unterminated string"}
			}
			out = append(out, token{tString, src[i+1 : j], i, j + 1, nl})
			nl = false
			i = j + 1
		case c >= '0' && c <= '9':
			j := i
			for j < len(src) && (src[j] >= '0' && src[j] <= '9') {
				j++
			}
			out = append(out, token{tNumber, src[i:j], i, j, nl})
			nl = false
			i = j
		case c == '_' || c == '$' || (c >= 'a' && c <= 'z') || (c >= 'A' && c <= 'Z'):
			j := i
			for j < len(src) && (src[j] == '_' || src[j] == '$' || (src[j] >= 'a' && src[j] <= 'z') || (src[j] >= 'A' && src[j] <= 'Z') || (src[j] >= '0' && src[j] <= '9')) {
				j++
			}
			out = append(out, token{tIdent, src[i:j], i, j, nl})
			nl = false
			i = j
		default:
			matched := false
			for _, p := range puncts {
				if strings.HasPrefix(src[i:], p) {
					out = append(out, token{tPunct, p, i, i + len(p), nl})
					nl = false
					i += len(p)
					matched = true
					break
				}
			}
			if !matched {
				return nil, &SyntaxError{i, fmt.Sprintf("unexpected character %q", c)}
			}
		}
	}
	out = append(out, token{tEOF, "", len(src), len(src), nl})
	return out, nil
}
