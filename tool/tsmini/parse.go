package tsmini

import (
	"fmt"
	"strconv"
)

type Stmt interface{}
type Expr interface{}

type (
	VarDecl struct {
		Kind string
		Name string
		Init Expr
	}
	FuncDecl struct {
		Name   string
		Params []string
		Body   []Stmt
	}
	ClassDecl struct {
		Name    string
		Fields  []string
		Ctor    *FuncDecl
		Methods map[string]*FuncDecl
	}
	IfStmt struct {
		Cond Expr
		Then Stmt
		Else Stmt
	}
	WhileStmt struct {
		Cond Expr
		Body Stmt
	}
	SwitchStmt struct {
		Tag   Expr
		Cases []SwitchCase
	}
	SwitchCase struct {
		Match Expr // nil = default
		Body  []Stmt
	}
	BreakStmt    struct{}
	ContinueStmt struct{}
	ReturnStmt   struct{ X Expr }
	BlockStmt    struct{ Body []Stmt }
	ExprStmt     struct{ X Expr }
	TryStmt      struct {
		Body  []Stmt
		Param string
		Catch []Stmt
	}

	NumLit   struct{ V int64 }
	StrLit   struct{ V string }
	Ident    struct{ Name string }
	ThisExpr struct{}
	ArrayLit struct{ Elems []Expr }
	ObjLit   struct {
		Keys []string
		Vals []Expr
	}
	MemberExpr struct {
		X    Expr
		Name string
	}
	IndexExpr struct {
		X, I Expr
	}
	CallExpr struct {
		Fn   Expr
		Args []Expr
	}
	NewExpr struct {
		Cls  string
		Args []Expr
	}
	UnaryExpr struct {
		Op string
		X  Expr
	}
	BinaryExpr struct {
		Op   string
		X, Y Expr
	}
	AssignExpr struct {
		Op     string // = += -= *=
		Target Expr
		Val    Expr
	}
	UpdateExpr struct {
		Op     string // ++ --
		Target Expr
	}
	CondExpr struct{ C, A, B Expr }
)

// Program is a parsed file plus the source spans of all type annotations.
type Program struct {
	Src       string
	Body      []Stmt
	TypeSpans [][2]int
}

type parser struct {
	toks  []token
	i     int
	spans [][2]int
}

func Parse(src string) (prog *Program, err error) {
	toks, lerr := lex(src)
	if lerr != nil {
		return nil, lerr
	}
	p := &parser{toks: toks}
	defer func() {
		if r := recover(); r != nil {
			if se, ok := r.(*SyntaxError); ok {
				err = se
				return
			}
			panic(r)
		}
	}()
	var body []Stmt
	for p.cur().kind != tEOF {
		body = append(body, p.stmt())
	}
	return &Program{Src: src, Body: body, TypeSpans: p.spans}, nil
}

func (p *parser) cur() token  { return p.toks[p.i] }
func (p *parser) peek() token { return p.toks[min(p.i+1, len(p.toks)-1)] }
func (p *parser) next() token { t := p.toks[p.i]; p.i++; return t }

func (p *parser) fail(format string, a ...interface{}) {
	panic(&SyntaxError{p.cur().pos, fmt.Sprintf(format, a...) + fmt.Sprintf(" (at %q)", p.cur().text)})
}

func (p *parser) isP(s string) bool { return p.cur().kind == tPunct && p.cur().text == s }
func (p *parser) isK(s string) bool { return p.cur().kind == tIdent && p.cur().text == s }

func (p *parser) eat(s string) bool {
	if (p.cur().kind == tPunct || p.cur().kind == tIdent) && p.cur().text == s {
		p.i++
		return true
	}
	return false
}

func (p *parser) expect(s string) {
	if !p.eat(s) {
		p.fail("expected %q", s)
	}
}

func (p *parser) ident() string {
	if p.cur().kind != tIdent {
		p.fail("expected identifier")
	}
	return p.next().text
}

// optType skips ": type" and records its span.
func (p *parser) optType() {
	if !p.isP(":") {
		return
	}
	start := p.cur().pos
	p.i++
	p.skipType()
	p.spans = append(p.spans, [2]int{start, p.toks[p.i-1].end})
}

func (p *parser) skipType() {
	for {
		switch {
		case p.isP("{"):
			p.skipBalanced("{", "}")
		case p.isP("("):
			p.skipBalanced("(", ")")
			if p.eat("=>") {
				p.skipType()
			}
		case p.cur().kind == tIdent:
			p.i++
			for p.eat(".") {
				p.ident()
			}
			if p.isP("<") {
				p.skipBalanced("<", ">")
			}
		case p.cur().kind == tString || p.cur().kind == tNumber:
			p.i++
		default:
			p.fail("unsupported type syntax")
		}
		for p.isP("[") && p.peek().kind == tPunct && p.peek().text == "]" {
			p.i += 2
		}
		if p.eat("|") || p.eat("&") {
			continue
		}
		return
	}
}

func (p *parser) skipBalanced(open, close string) {
	depth := 0
	for {
		if p.cur().kind == tEOF {
			p.fail("unbalanced %s", open)
		}
		if p.isP(open) {
			depth++
		} else if p.isP(close) {
			depth--
			if depth == 0 {
				p.i++
				return
			}
		}
		p.i++
	}
}

func (p *parser) block() []Stmt {
	p.expect("{")
	var out []Stmt
	for !p.isP("}") {
		if p.cur().kind == tEOF {
			p.fail("unterminated block")
		}
		out = append(out, p.stmt())
	}
	p.i++
	return out
}

func (p *parser) params() []string {
	p.expect("(")
	var out []string
	for !p.isP(")") {
		out = append(out, p.ident())
		p.eat("?")
		p.optType()
		if !p.eat(",") {
			break
		}
	}
	p.expect(")")
	return out
}

func (p *parser) stmt() Stmt {
	t := p.cur()
	if t.kind == tPunct {
		switch t.text {
		case ";":
			p.i++
			return &BlockStmt{}
		case "{":
			return &BlockStmt{Body: p.block()}
		}
	}
	if t.kind == tIdent {
		switch t.text {
		case "const", "let", "var":
			p.i++
			var decls []Stmt
			for {
				name := p.ident()
				p.optType()
				var init Expr
				if p.eat("=") {
					init = p.assign()
				}
				decls = append(decls, &VarDecl{Kind: t.text, Name: name, Init: init})
				if !p.eat(",") {
					break
				}
			}
			p.eat(";")
			if len(decls) == 1 {
				return decls[0]
			}
			return &BlockStmt{Body: decls}
		case "function":
			p.i++
			name := p.ident()
			ps := p.params()
			p.optType()
			return &FuncDecl{Name: name, Params: ps, Body: p.block()}
		case "class":
			return p.class()
		case "if":
			p.i++
			p.expect("(")
			c := p.expr()
			p.expect(")")
			th := p.stmt()
			var el Stmt
			if p.eat("else") {
				el = p.stmt()
			}
			return &IfStmt{c, th, el}
		case "while":
			p.i++
			p.expect("(")
			c := p.expr()
			p.expect(")")
			return &WhileStmt{c, p.stmt()}
		case "switch":
			p.i++
			p.expect("(")
			tag := p.expr()
			p.expect(")")
			p.expect("{")
			sw := &SwitchStmt{Tag: tag}
			for !p.isP("}") {
				var c SwitchCase
				if p.eat("default") {
					p.expect(":")
				} else {
					p.expect("case")
					c.Match = p.expr()
					p.expect(":")
				}
				for !p.isK("case") && !p.isK("default") && !p.isP("}") {
					c.Body = append(c.Body, p.stmt())
				}
				sw.Cases = append(sw.Cases, c)
			}
			p.i++
			return sw
		case "break":
			p.i++
			p.eat(";")
			return &BreakStmt{}
		case "continue":
			p.i++
			p.eat(";")
			return &ContinueStmt{}
		case "return":
			p.i++
			var x Expr
			if !p.isP(";") && !p.isP("}") && !p.cur().nl {
				x = p.expr()
			}
			p.eat(";")
			return &ReturnStmt{x}
		case "try":
			p.i++
			ts := &TryStmt{Body: p.block()}
			p.expect("catch")
			if p.eat("(") {
				ts.Param = p.ident()
				p.optType()
				p.expect(")")
			}
			ts.Catch = p.block()
			return ts
		}
	}
	x := p.expr()
	p.eat(";")
	return &ExprStmt{x}
}

func (p *parser) class() Stmt {
	p.expect("class")
	c := &ClassDecl{Name: p.ident(), Methods: map[string]*FuncDecl{}}
	p.expect("{")
	for !p.isP("}") {
		if p.eat(";") {
			continue
		}
		name := p.ident()
		if p.isP("(") {
			ps := p.params()
			p.optType()
			fd := &FuncDecl{Name: name, Params: ps, Body: p.block()}
			if name == "constructor" {
				c.Ctor = fd
			} else {
				c.Methods[name] = fd
			}
			continue
		}
		p.eat("?")
		p.optType()
		if p.eat("=") {
			p.fail("class field initialisers are not supported")
		}
		c.Fields = append(c.Fields, name)
		p.eat(";")
	}
	p.i++
	p.eat(";")
	return c
}

func (p *parser) expr() Expr { return p.assign() }

func (p *parser) assign() Expr {
	lhs := p.cond()
	if p.cur().kind == tPunct {
		switch op := p.cur().text; op {
		case "=", "+=", "-=", "*=":
			p.i++
			return &AssignExpr{op, lhs, p.assign()}
		}
	}
	return lhs
}

func (p *parser) cond() Expr {
	c := p.binary(0)
	if p.eat("?") {
		a := p.assign()
		p.expect(":")
		b := p.assign()
		return &CondExpr{c, a, b}
	}
	return c
}

var binPrec = map[string]int{
	"||": 1, "&&": 2, "==": 3, "!=": 3, "===": 3, "!==": 3,
	"<": 4, "<=": 4, ">": 4, ">=": 4, "+": 5, "-": 5, "*": 6, "/": 6, "%": 6,
}

func (p *parser) binary(minPrec int) Expr {
	x := p.unary()
	for p.cur().kind == tPunct {
		op := p.cur().text
		pr, ok := binPrec[op]
		if !ok || pr <= minPrec {
			break
		}
		p.i++
		y := p.binary(pr)
		x = &BinaryExpr{op, x, y}
	}
	return x
}

func (p *parser) unary() Expr {
	if p.cur().kind == tPunct {
		switch op := p.cur().text; op {
		case "-", "!", "+":
			p.i++
			return &UnaryExpr{op, p.unary()}
		case "++", "--":
			p.i++
			return &UpdateExpr{op, p.unary()}
		}
	}
	return p.postfix()
}

func (p *parser) postfix() Expr {
	x := p.primary()
	for {
		switch {
		case p.isP("."):
			p.i++
			x = &MemberExpr{x, p.ident()}
		case p.isP("["):
			p.i++
			i := p.expr()
			p.expect("]")
			x = &IndexExpr{x, i}
		case p.isP("("):
			x = &CallExpr{x, p.args()}
		case (p.isP("++") || p.isP("--")) && !p.cur().nl:
			x = &UpdateExpr{p.next().text, x}
		default:
			return x
		}
	}
}

func (p *parser) args() []Expr {
	p.expect("(")
	var out []Expr
	for !p.isP(")") {
		out = append(out, p.assign())
		if !p.eat(",") {
			break
		}
	}
	p.expect(")")
	return out
}

func (p *parser) primary() Expr {
	t := p.next()
	switch t.kind {
	case tNumber:
		v, _ := strconv.ParseInt(t.text, 10, 64)
		return &NumLit{v}
	case tString:
		return &StrLit{t.text}
	case tIdent:
		switch t.text {
		case "this":
			return &ThisExpr{}
		case "new":
			cls := p.ident()
			var args []Expr
			if p.isP("(") {
				args = p.args()
			}
			return &NewExpr{cls, args}
		case "function":
			p.i--
			p.fail("function expressions are not supported")
		}
		return &Ident{t.text}
	case tPunct:
		switch t.text {
		case "(":
			x := p.expr()
			p.expect(")")
			return x
		case "[":
			var el []Expr
			for !p.isP("]") {
				el = append(el, p.assign())
				if !p.eat(",") {
					break
				}
			}
			p.expect("]")
			return &ArrayLit{el}
		case "{":
			o := &ObjLit{}
			for !p.isP("}") {
				var key string
				if p.cur().kind == tString {
					key = p.next().text
				} else {
					key = p.ident()
				}
				p.expect(":")
				o.Keys = append(o.Keys, key)
				o.Vals = append(o.Vals, p.assign())
				if !p.eat(",") {
					break
				}
			}
			p.expect("}")
			return o
		}
	}
	p.i--
	p.fail("unexpected token in expression")
	return nil
}

// StripTypes returns the source with every recorded type annotation blanked out (plain JS).
func (pr *Program) StripTypes() string {
	b := []byte(pr.Src)
	for _, s := range pr.TypeSpans {
		for i := s[0]; i < s[1] && i < len(b); i++ {
			if b[i] != '\n' {
				b[i] = ' '
			}
		}
	}
	return string(b)
}
