package tsmini

import (
	"fmt"
	"sort"
	"strings"

	"verif/tool/gosym"
)

type Value interface{}

type (
	Undefined struct{}
	Null      struct{}
	NaN       struct{}
	Object    struct {
		Class  *ClassDecl
		Fields map[string]Value
	}
	Array       struct{ Elems []Value }
	Function    struct{ Decl *FuncDecl }
	ClassVal    struct{ Decl *ClassDecl }
	BoundMethod struct {
		Recv Value
		Fn   *FuncDecl
	}
	Builtin struct {
		Name string
		Recv Value
	}
)

// Throw is a JavaScript exception escaping the program (TypeError etc.).
type Throw struct {
	Kind string
	Msg  string
}

type Unsupported struct{ What string }

type scope struct {
	vars   map[string]*Value
	parent *scope
}

func (s *scope) lookup(name string) *Value {
	for c := s; c != nil; c = c.parent {
		if v, ok := c.vars[name]; ok {
			return v
		}
	}
	return nil
}

func (s *scope) declare(name string, v Value) {
	cell := new(Value)
	*cell = v
	s.vars[name] = cell
}

type Interp struct {
	St        *gosym.State
	Prog      *Program
	global    *scope
	MaxLoop   int
	Functions map[string]int64 // statements executed per function
	curFn     string
}

type ctl int

const (
	cNone ctl = iota
	cBreak
	cContinue
	cReturn
)

func num(v int64) *gosym.Term { return gosym.ConstInt(64, v) }

// New creates an interpreter and runs the top-level statements of the program.
func New(st *gosym.State, prog *Program) *Interp {
	in := &Interp{St: st, Prog: prog, global: &scope{vars: map[string]*Value{}}, MaxLoop: 100000, Functions: map[string]int64{}}
	in.curFn = "<top>"
	// hoist function and class declarations
	for _, s := range prog.Body {
		switch d := s.(type) {
		case *FuncDecl:
			in.global.declare(d.Name, &Function{d})
		case *ClassDecl:
			in.global.declare(d.Name, &ClassVal{d})
		}
	}
	for _, s := range prog.Body {
		switch s.(type) {
		case *FuncDecl, *ClassDecl:
			continue
		}
		if c, _ := in.exec(s, in.global, Undefined{}); c != cNone {
			panic(Unsupported{"control transfer at top level"})
		}
	}
	return in
}

func (in *Interp) Global(name string) Value {
	if c := in.global.lookup(name); c != nil {
		return *c
	}
	return Undefined{}
}

func (in *Interp) SetGlobal(name string, v Value) {
	if c := in.global.lookup(name); c != nil {
		*c = v
		return
	}
	in.global.declare(name, v)
}

// Call invokes a global function.
func (in *Interp) Call(name string, args ...Value) Value {
	return in.call(in.Global(name), args, name)
}

func (in *Interp) typeError(format string, a ...interface{}) {
	panic(&Throw{"TypeError", fmt.Sprintf(format, a...)})
}

func (in *Interp) truthy(v Value) *gosym.Term {
	switch x := v.(type) {
	case *gosym.Term:
		if x.W == 0 {
			return x
		}
		return gosym.Not(gosym.Cmp(gosym.OpEq, x, num(0)))
	case Undefined, Null, NaN:
		return gosym.False
	case string:
		return gosym.BoolT(x != "")
	}
	return gosym.True
}

func (in *Interp) exec(s Stmt, sc *scope, this Value) (ctl, Value) {
	in.St.Step(1)
	in.Functions[in.curFn]++
	switch n := s.(type) {
	case *VarDecl:
		var v Value = Undefined{}
		if n.Init != nil {
			v = in.eval(n.Init, sc, this)
		}
		sc.declare(n.Name, v)
	case *FuncDecl:
		sc.declare(n.Name, &Function{n})
	case *ClassDecl:
		sc.declare(n.Name, &ClassVal{n})
	case *ExprStmt:
		in.eval(n.X, sc, this)
	case *BlockStmt:
		inner := &scope{vars: map[string]*Value{}, parent: sc}
		for _, x := range n.Body {
			if c, v := in.exec(x, inner, this); c != cNone {
				return c, v
			}
		}
	case *IfStmt:
		if in.St.Branch(in.truthy(in.eval(n.Cond, sc, this))) {
			return in.exec(n.Then, sc, this)
		} else if n.Else != nil {
			return in.exec(n.Else, sc, this)
		}
	case *WhileStmt:
		for iter := 0; ; iter++ {
			if iter > in.MaxLoop {
				in.St.End("unwind", fmt.Sprintf("loop bound %d exceeded in TS function %s", in.MaxLoop, in.curFn))
			}
			if !in.St.Branch(in.truthy(in.eval(n.Cond, sc, this))) {
				break
			}
			c, v := in.exec(n.Body, sc, this)
			if c == cBreak {
				break
			}
			if c == cReturn {
				return c, v
			}
		}
	case *SwitchStmt:
		tag := in.eval(n.Tag, sc, this)
		start := -1
		for i, c := range n.Cases {
			if c.Match == nil {
				continue
			}
			if in.St.Branch(in.strictEq(tag, in.eval(c.Match, sc, this))) {
				start = i
				break
			}
		}
		if start < 0 {
			for i, c := range n.Cases {
				if c.Match == nil {
					start = i
				}
			}
		}
		if start >= 0 {
			inner := &scope{vars: map[string]*Value{}, parent: sc}
			for _, c := range n.Cases[start:] {
				for _, x := range c.Body {
					cc, v := in.exec(x, inner, this)
					if cc == cBreak {
						return cNone, nil
					}
					if cc != cNone {
						return cc, v
					}
				}
			}
		}
	case *BreakStmt:
		return cBreak, nil
	case *ContinueStmt:
		return cContinue, nil
	case *ReturnStmt:
		if n.X == nil {
			return cReturn, Undefined{}
		}
		return cReturn, in.eval(n.X, sc, this)
	case *TryStmt:
		return in.execTry(n, sc, this)
	default:
		panic(Unsupported{fmt.Sprintf("statement %T", s)})
	}
	return cNone, nil
}

func (in *Interp) execTry(n *TryStmt, sc *scope, this Value) (c ctl, v Value) {
	defer func() {
		if r := recover(); r != nil {
			th, ok := r.(*Throw)
			if !ok {
				panic(r)
			}
			inner := &scope{vars: map[string]*Value{}, parent: sc}
			if n.Param != "" {
				inner.declare(n.Param, &Object{Fields: map[string]Value{"message": th.Msg, "stack": th.Kind + ": " + th.Msg}})
			}
			c, v = in.exec(&BlockStmt{Body: n.Catch}, inner, this)
		}
	}()
	return in.exec(&BlockStmt{Body: n.Body}, sc, this)
}

func (in *Interp) strictEq(a, b Value) *gosym.Term {
	switch x := a.(type) {
	case *gosym.Term:
		y, ok := b.(*gosym.Term)
		if !ok || (x.W == 0) != (y.W == 0) {
			return gosym.False
		}
		return gosym.Cmp(gosym.OpEq, x, y)
	case string:
		y, ok := b.(string)
		return gosym.BoolT(ok && x == y)
	case Undefined:
		_, ok := b.(Undefined)
		return gosym.BoolT(ok)
	case Null:
		_, ok := b.(Null)
		return gosym.BoolT(ok)
	case NaN:
		return gosym.False
	}
	return gosym.BoolT(a == b)
}

func isNullish(v Value) bool {
	switch v.(type) {
	case Undefined, Null:
		return true
	}
	return false
}

func (in *Interp) looseEq(a, b Value) *gosym.Term {
	if isNullish(a) && isNullish(b) {
		return gosym.True
	}
	return in.strictEq(a, b)
}

func (in *Interp) eval(e Expr, sc *scope, this Value) Value {
	in.St.Step(1)
	switch n := e.(type) {
	case *NumLit:
		return num(n.V)
	case *StrLit:
		return n.V
	case *Ident:
		switch n.Name {
		case "undefined":
			return Undefined{}
		case "null":
			return Null{}
		case "true":
			return gosym.True
		case "false":
			return gosym.False
		case "NaN":
			return NaN{}
		case "console":
			return &Builtin{Name: "console"}
		case "JSON":
			return &Builtin{Name: "JSON"}
		}
		c := sc.lookup(n.Name)
		if c == nil {
			panic(&Throw{"ReferenceError", n.Name + " is not defined"})
		}
		return *c
	case *ThisExpr:
		return this
	case *ArrayLit:
		a := &Array{}
		for _, x := range n.Elems {
			a.Elems = append(a.Elems, in.eval(x, sc, this))
		}
		return a
	case *ObjLit:
		o := &Object{Fields: map[string]Value{}}
		for i, k := range n.Keys {
			o.Fields[k] = in.eval(n.Vals[i], sc, this)
		}
		return o
	case *MemberExpr:
		return in.member(in.eval(n.X, sc, this), n.Name)
	case *IndexExpr:
		return in.index(in.eval(n.X, sc, this), in.eval(n.I, sc, this))
	case *CallExpr:
		var fn Value
		name := "<expr>"
		if m, ok := n.Fn.(*MemberExpr); ok {
			recv := in.eval(m.X, sc, this)
			fn = in.member(recv, m.Name)
			name = m.Name
		} else {
			fn = in.eval(n.Fn, sc, this)
			if id, ok := n.Fn.(*Ident); ok {
				name = id.Name
			}
		}
		var args []Value
		for _, a := range n.Args {
			args = append(args, in.eval(a, sc, this))
		}
		return in.call(fn, args, name)
	case *NewExpr:
		c := sc.lookup(n.Cls)
		if c == nil {
			panic(&Throw{"ReferenceError", n.Cls + " is not defined"})
		}
		cv, ok := (*c).(*ClassVal)
		if !ok {
			in.typeError("%s is not a constructor", n.Cls)
		}
		o := &Object{Class: cv.Decl, Fields: map[string]Value{}}
		for _, f := range cv.Decl.Fields {
			o.Fields[f] = Undefined{}
		}
		if cv.Decl.Ctor != nil {
			var args []Value
			for _, a := range n.Args {
				args = append(args, in.eval(a, sc, this))
			}
			in.invoke(cv.Decl.Ctor, args, o, n.Cls+".constructor")
		}
		return o
	case *UnaryExpr:
		x := in.eval(n.X, sc, this)
		switch n.Op {
		case "!":
			return gosym.Not(in.truthy(x))
		case "-":
			if t, ok := x.(*gosym.Term); ok && t.W != 0 {
				return gosym.Un(gosym.OpNeg, t)
			}
			return NaN{}
		case "+":
			if t, ok := x.(*gosym.Term); ok && t.W != 0 {
				return t
			}
			return NaN{}
		}
	case *BinaryExpr:
		return in.binary(n, sc, this)
	case *CondExpr:
		if in.St.Branch(in.truthy(in.eval(n.C, sc, this))) {
			return in.eval(n.A, sc, this)
		}
		return in.eval(n.B, sc, this)
	case *AssignExpr:
		v := in.eval(n.Val, sc, this)
		if n.Op != "=" {
			old := in.eval(n.Target, sc, this)
			v = in.arith(string(n.Op[0]), old, v)
		}
		in.assign(n.Target, v, sc, this)
		return v
	case *UpdateExpr:
		old := in.eval(n.Target, sc, this)
		op := "+"
		if n.Op == "--" {
			op = "-"
		}
		in.assign(n.Target, in.arith(op, old, num(1)), sc, this)
		return old
	}
	panic(Unsupported{fmt.Sprintf("expression %T", e)})
}

func (in *Interp) arith(op string, a, b Value) Value {
	if op == "+" {
		if s, ok := a.(string); ok {
			return s + in.toString(b)
		}
		if s, ok := b.(string); ok {
			return in.toString(a) + s
		}
	}
	x, ok1 := a.(*gosym.Term)
	y, ok2 := b.(*gosym.Term)
	if !ok1 || !ok2 || x.W == 0 || y.W == 0 {
		return NaN{}
	}
	switch op {
	case "+":
		return gosym.Bin(gosym.OpAdd, x, y)
	case "-":
		return gosym.Bin(gosym.OpSub, x, y)
	case "*":
		return gosym.Bin(gosym.OpMul, x, y)
	}
	panic(Unsupported{"operator " + op + " (floating-point semantics not modelled)"})
}

func (in *Interp) toString(v Value) string {
	switch x := v.(type) {
	case string:
		return x
	case *gosym.Term:
		if x.IsConst() {
			if x.W == 0 {
				return fmt.Sprint(x.C == 1)
			}
			return fmt.Sprint(x.Int())
		}
		return "⟦sym⟧"
	case Undefined:
		return "undefined"
	case Null:
		return "null"
	case NaN:
		return "NaN"
	}
	return "[object]"
}

func (in *Interp) binary(n *BinaryExpr, sc *scope, this Value) Value {
	switch n.Op {
	case "&&":
		a := in.eval(n.X, sc, this)
		if !in.St.Branch(in.truthy(a)) {
			return a
		}
		return in.eval(n.Y, sc, this)
	case "||":
		a := in.eval(n.X, sc, this)
		if in.St.Branch(in.truthy(a)) {
			return a
		}
		return in.eval(n.Y, sc, this)
	}
	a := in.eval(n.X, sc, this)
	b := in.eval(n.Y, sc, this)
	switch n.Op {
	case "==":
		return in.looseEq(a, b)
	case "!=":
		return gosym.Not(in.looseEq(a, b))
	case "===":
		return in.strictEq(a, b)
	case "!==":
		return gosym.Not(in.strictEq(a, b))
	case "<", "<=", ">", ">=":
		x, ok1 := a.(*gosym.Term)
		y, ok2 := b.(*gosym.Term)
		if !ok1 || !ok2 || x.W == 0 || y.W == 0 {
			return gosym.False // comparisons with undefined / NaN are false
		}
		switch n.Op {
		case "<":
			return gosym.Cmp(gosym.OpSLt, x, y)
		case "<=":
			return gosym.Cmp(gosym.OpSLe, x, y)
		case ">":
			return gosym.Cmp(gosym.OpSLt, y, x)
		default:
			return gosym.Cmp(gosym.OpSLe, y, x)
		}
	}
	return in.arith(n.Op, a, b)
}

func (in *Interp) member(recv Value, name string) Value {
	switch r := recv.(type) {
	case Undefined, Null:
		in.typeError("Cannot read properties of %s (reading '%s')", in.toString(recv), name)
	case *Object:
		if v, ok := r.Fields[name]; ok {
			return v
		}
		if r.Class != nil {
			if m, ok := r.Class.Methods[name]; ok {
				return &BoundMethod{Recv: r, Fn: m}
			}
		}
		return Undefined{}
	case *Array:
		switch name {
		case "length":
			return num(int64(len(r.Elems)))
		case "push", "slice", "pop":
			return &Builtin{Name: "Array." + name, Recv: r}
		}
		return Undefined{}
	case string:
		switch name {
		case "length":
			return num(int64(len(r)))
		case "charCodeAt":
			return &Builtin{Name: "String.charCodeAt", Recv: r}
		}
		return Undefined{}
	case *Builtin:
		if r.Name == "console" {
			return &Builtin{Name: "console." + name}
		}
		if r.Name == "JSON" {
			return &Builtin{Name: "JSON." + name}
		}
	}
	return Undefined{}
}

func (in *Interp) index(recv, idx Value) Value {
	switch r := recv.(type) {
	case Undefined, Null:
		in.typeError("Cannot read properties of %s (reading index)", in.toString(recv))
	case *Array:
		t, ok := idx.(*gosym.Term)
		if !ok || t.W == 0 {
			return Undefined{}
		}
		i := in.St.ConcInt(t)
		if i < 0 || i >= len(r.Elems) {
			return Undefined{}
		}
		return r.Elems[i]
	case *Object:
		if s, ok := idx.(string); ok {
			return in.member(r, s)
		}
		return Undefined{}
	}
	return Undefined{}
}

func (in *Interp) assign(target Expr, v Value, sc *scope, this Value) {
	switch t := target.(type) {
	case *Ident:
		c := sc.lookup(t.Name)
		if c == nil {
			panic(&Throw{"ReferenceError", t.Name + " is not defined"})
		}
		*c = v
	case *MemberExpr:
		recv := in.eval(t.X, sc, this)
		switch r := recv.(type) {
		case *Object:
			r.Fields[t.Name] = v
		case Undefined, Null:
			in.typeError("Cannot set properties of %s (setting '%s')", in.toString(recv), t.Name)
		default:
			// assignment to a property of a primitive is silently ignored
		}
	case *IndexExpr:
		recv := in.eval(t.X, sc, this)
		iv := in.eval(t.I, sc, this)
		switch r := recv.(type) {
		case *Array:
			it, ok := iv.(*gosym.Term)
			if !ok {
				panic(Unsupported{"array element assignment with a non-numeric index"})
			}
			i := in.St.ConcInt(it)
			switch {
			case i >= 0 && i < len(r.Elems):
				r.Elems[i] = v
			case i == len(r.Elems):
				r.Elems = append(r.Elems, v)
			default:
				panic(Unsupported{"sparse array assignment"})
			}
		case Undefined, Null:
			in.typeError("Cannot set properties of %s", in.toString(recv))
		default:
			panic(Unsupported{"indexed assignment on this value"})
		}
	default:
		panic(Unsupported{fmt.Sprintf("assignment target %T", target)})
	}
}

func (in *Interp) call(fn Value, args []Value, name string) Value {
	switch f := fn.(type) {
	case *Function:
		return in.invoke(f.Decl, args, Undefined{}, f.Decl.Name)
	case *BoundMethod:
		cls := ""
		if o, ok := f.Recv.(*Object); ok && o.Class != nil {
			cls = o.Class.Name + "."
		}
		return in.invoke(f.Fn, args, f.Recv, cls+f.Fn.Name)
	case *Builtin:
		return in.builtin(f, args)
	}
	in.typeError("%s is not a function", name)
	return nil
}

func (in *Interp) invoke(fd *FuncDecl, args []Value, this Value, name string) Value {
	sc := &scope{vars: map[string]*Value{}, parent: in.global}
	for i, p := range fd.Params {
		var v Value = Undefined{}
		if i < len(args) {
			v = args[i]
		}
		sc.declare(p, v)
	}
	saved := in.curFn
	in.curFn = name
	defer func() { in.curFn = saved }()
	for _, s := range fd.Body {
		c, v := in.exec(s, sc, this)
		if c == cReturn {
			return v
		}
		if c != cNone {
			panic(Unsupported{"break/continue outside a loop"})
		}
	}
	return Undefined{}
}

// jsonText is what JSON.stringify returns in this model: the value itself, to be copied by
// JSON.parse. Exact for plain data whose numbers are integers (the only numbers modelled);
// class instances lose their prototype as in JavaScript.
type jsonText struct{ v Value }

func (in *Interp) jsonCopy(v Value) Value {
	switch x := v.(type) {
	case *Object:
		o := &Object{Fields: map[string]Value{}}
		for k, f := range x.Fields {
			if _, undef := f.(Undefined); undef {
				continue // JSON drops undefined members
			}
			o.Fields[k] = in.jsonCopy(f)
		}
		return o
	case *Array:
		a := &Array{}
		for _, e := range x.Elems {
			a.Elems = append(a.Elems, in.jsonCopy(e))
		}
		return a
	case Undefined:
		return Null{}
	}
	return v
}

func (in *Interp) builtin(b *Builtin, args []Value) Value {
	switch b.Name {
	case "JSON.stringify":
		if len(args) == 0 {
			return Undefined{}
		}
		if _, undef := args[0].(Undefined); undef {
			return Undefined{}
		}
		return jsonText{args[0]}
	case "JSON.parse":
		if len(args) == 1 {
			if jt, ok := args[0].(jsonText); ok {
				return in.jsonCopy(jt.v)
			}
		}
		panic(Unsupported{"JSON.parse of a text that JSON.stringify did not produce"})
	case "Array.push":
		a := b.Recv.(*Array)
		a.Elems = append(a.Elems, args...)
		return num(int64(len(a.Elems)))
	case "Array.pop":
		a := b.Recv.(*Array)
		if len(a.Elems) == 0 {
			return Undefined{}
		}
		v := a.Elems[len(a.Elems)-1]
		a.Elems = a.Elems[:len(a.Elems)-1]
		return v
	case "Array.slice":
		a := b.Recv.(*Array)
		n := len(a.Elems)
		norm := func(v Value, def int) int {
			t, ok := v.(*gosym.Term)
			if !ok || t.W == 0 {
				return def
			}
			i := in.St.ConcInt(t)
			if i < 0 {
				i += n
				if i < 0 {
					i = 0
				}
			}
			if i > n {
				i = n
			}
			return i
		}
		lo, hi := 0, n
		if len(args) > 0 {
			lo = norm(args[0], 0)
		}
		if len(args) > 1 {
			hi = norm(args[1], n)
		}
		out := &Array{}
		if lo < hi {
			out.Elems = append(out.Elems, a.Elems[lo:hi]...)
		}
		return out
	case "String.charCodeAt":
		s := b.Recv.(string)
		t, ok := args[0].(*gosym.Term)
		if !ok {
			return NaN{}
		}
		i := in.St.ConcInt(t)
		if i < 0 || i >= len(s) {
			return NaN{}
		}
		return num(int64(s[i]))
	case "console.error", "console.log":
		var parts []string
		for _, a := range args {
			parts = append(parts, in.toString(a))
		}
		in.St.Printed(b.Name + ": " + strings.Join(parts, " "))
		return Undefined{}
	}
	panic(Unsupported{"builtin " + b.Name})
}

// FunctionsEncoded lists the TS functions executed with their statement counts.
func (in *Interp) FunctionsEncoded() []string {
	var out []string
	for f, n := range in.Functions {
		out = append(out, fmt.Sprintf("ts:%s (%d statements)", f, n))
	}
	sort.Strings(out)
	return out
}
