package gosym

import (
	"fmt"
	"go/types"
	"strings"

	"golang.org/x/tools/go/ssa"
)

// Value is any interpreted value:
//
//	*Term                 ints and bools (possibly symbolic)
//	string / *SymStr      strings (SymStr: bytes may be symbolic, length concrete)
//	*Value                pointer to a memory cell (nil pointer: (*Value)(nil))
//	Struct, Array         aggregates (own storage when in memory, immutable in registers)
//	Slice                 slice header over []Value
//	*Map, *Chan           reference types (nil: typed nil pointer)
//	Iface                 interface value (zero Iface = nil interface)
//	Tuple                 multiple results
//	*ssa.Function, *ssa.Builtin, *Closure   function values
//	*GV                   guarded choice between several non-scalar values
type Value interface{}

type Struct []Value
type Array []Value
type Slice []Value
type Tuple []Value

type Iface struct {
	T types.Type
	V Value
}

type Closure struct {
	Fn  *ssa.Function
	Env []Value
}

type SymStr struct{ B []*Term }

// GV is a guarded choice: exactly one guard holds on the current path.
type GV struct {
	G []*Term
	V []Value
}

type Chan struct {
	buf    []Value
	cap    int
	closed bool
	recvq  []*coroutine
	sendq  []*coroutine
}

func intWidth(b *types.Basic) (uint8, bool, bool) { // width, signed, ok
	switch b.Kind() {
	case types.Bool, types.UntypedBool:
		return 0, false, true
	case types.Int, types.Int64, types.UntypedInt:
		return 64, true, true
	case types.Uint, types.Uint64, types.Uintptr:
		return 64, false, true
	case types.Int32, types.UntypedRune:
		return 32, true, true
	case types.Uint32:
		return 32, false, true
	case types.Int16:
		return 16, true, true
	case types.Uint16:
		return 16, false, true
	case types.Int8:
		return 8, true, true
	case types.Uint8:
		return 8, false, true
	}
	return 0, false, false
}

func scalarInfo(t types.Type) (uint8, bool, bool) {
	if b, ok := t.Underlying().(*types.Basic); ok {
		return intWidth(b)
	}
	return 0, false, false
}

func zero(t types.Type) Value {
	switch t := t.(type) {
	case *types.Basic:
		if t.Kind() == types.UntypedNil {
			panic("untyped nil has no zero value")
		}
		if t.Info()&types.IsString != 0 {
			return ""
		}
		if t.Kind() == types.UnsafePointer {
			return (*Value)(nil)
		}
		w, _, ok := intWidth(t)
		if !ok {
			panic(unsupported("zero value of type " + t.String()))
		}
		if w == 0 {
			return False
		}
		return Const(w, 0)
	case *types.Pointer:
		return (*Value)(nil)
	case *types.Array:
		a := make(Array, t.Len())
		for i := range a {
			a[i] = zero(t.Elem())
		}
		return a
	case *types.Named:
		return zero(t.Underlying())
	case *types.Alias:
		return zero(types.Unalias(t))
	case *types.Interface:
		return Iface{}
	case *types.Slice:
		return Slice(nil)
	case *types.Struct:
		s := make(Struct, t.NumFields())
		for i := range s {
			s[i] = zero(t.Field(i).Type())
		}
		return s
	case *types.Tuple:
		if t.Len() == 1 {
			return zero(t.At(0).Type())
		}
		s := make(Tuple, t.Len())
		for i := range s {
			s[i] = zero(t.At(i).Type())
		}
		return s
	case *types.Chan:
		return (*Chan)(nil)
	case *types.Map:
		return (*Map)(nil)
	case *types.Signature:
		return (*ssa.Function)(nil)
	}
	panic(unsupported(fmt.Sprintf("zero value of %T", t)))
}

// copyVal returns a copy of v that shares no aggregate storage with it.
func copyVal(v Value) Value {
	switch v := v.(type) {
	case Struct:
		c := make(Struct, len(v))
		for i, x := range v {
			c[i] = copyVal(x)
		}
		return c
	case Array:
		c := make(Array, len(v))
		for i, x := range v {
			c[i] = copyVal(x)
		}
		return c
	case Tuple:
		c := make(Tuple, len(v))
		for i, x := range v {
			c[i] = copyVal(x)
		}
		return c
	case *GV:
		c := &GV{G: v.G, V: make([]Value, len(v.V))}
		for i, x := range v.V {
			c.V[i] = copyVal(x)
		}
		return c
	}
	return v
}

// storeVal writes v into the cell, keeping the cell's aggregate storage in place so that
// pointers to fields/elements taken earlier stay valid.
func storeVal(addr *Value, v Value) {
	switch lhs := (*addr).(type) {
	case Struct:
		if rhs, ok := v.(Struct); ok && len(rhs) == len(lhs) {
			for i := range lhs {
				storeVal(&lhs[i], rhs[i])
			}
			return
		}
	case Array:
		if rhs, ok := v.(Array); ok && len(rhs) == len(lhs) {
			for i := range lhs {
				storeVal(&lhs[i], rhs[i])
			}
			return
		}
	}
	*addr = copyVal(v)
}

// Map is an insertion-ordered map. Keys may be symbolic scalars (then lookups compare
// linearly and may fork).
type Map struct {
	keys    []Value
	vals    []Value
	live    []bool
	idx     map[interface{}]int
	n       int
	symKeys bool
}

func newMap() *Map { return &Map{idx: map[interface{}]int{}} }

func (m *Map) Len() int {
	if m == nil {
		return 0
	}
	return m.n
}

type hstruct string

// hashKey returns a comparable Go value representing a fully concrete key.
func hashKey(v Value) (interface{}, bool) {
	switch v := v.(type) {
	case *Term:
		if v.IsConst() {
			return [2]uint64{uint64(v.W), v.C}, true
		}
		return nil, false
	case string:
		return v, true
	case *SymStr:
		if s, ok := v.concrete(); ok {
			return s, true
		}
		return nil, false
	case *Value, *Map, *Chan, *Closure, *ssa.Function:
		return v, true
	case Struct:
		return hashSeq("S", []Value(v))
	case Array:
		return hashSeq("A", []Value(v))
	case Iface:
		if v.T == nil {
			return hstruct("nil-iface"), true
		}
		h, ok := hashKey(v.V)
		if !ok {
			return nil, false
		}
		return hstruct(fmt.Sprintf("I<%s>%#v", v.T.String(), h)), true
	}
	return nil, false
}

func hashSeq(tag string, vs []Value) (interface{}, bool) {
	var sb strings.Builder
	sb.WriteString(tag)
	for _, x := range vs {
		h, ok := hashKey(x)
		if !ok {
			return nil, false
		}
		fmt.Fprintf(&sb, "|%T:%v", h, h)
	}
	return hstruct(sb.String()), true
}

func (s *SymStr) concrete() (string, bool) {
	b := make([]byte, len(s.B))
	for i, t := range s.B {
		if !t.IsConst() {
			return "", false
		}
		b[i] = byte(t.C)
	}
	return string(b), true
}

// strBytes returns the bytes of a string value as terms.
func strBytes(v Value) []*Term {
	switch v := v.(type) {
	case string:
		out := make([]*Term, len(v))
		for i := 0; i < len(v); i++ {
			out[i] = Const(8, uint64(v[i]))
		}
		return out
	case *SymStr:
		return v.B
	}
	panic(fmt.Sprintf("gosym: not a string: %T", v))
}

func strLen(v Value) int {
	switch v := v.(type) {
	case string:
		return len(v)
	case *SymStr:
		return len(v.B)
	}
	panic(fmt.Sprintf("gosym: not a string: %T", v))
}

// mkStr normalises a byte-term vector to a Go string when fully concrete.
func mkStr(b []*Term) Value {
	s := &SymStr{B: b}
	if c, ok := s.concrete(); ok {
		return c
	}
	return s
}

type unsupportedErr struct{ what string }

func (u unsupportedErr) Error() string { return "unsupported: " + u.what }

func unsupported(what string) unsupportedErr { return unsupportedErr{what} }
