package gosym

import (
	"bufio"
	"fmt"
	"io"
	"os/exec"
	"strconv"
	"strings"
	"time"
)

// Solver is one long-lived SMT solver process spoken to in SMT-LIB2 over a pipe.
type Solver struct {
	Name    string
	cmd     *exec.Cmd
	in      io.WriteCloser
	out     *bufio.Reader
	Log     io.Writer
	Sat     int
	Unsat   int
	Unknown int
	Errors  int
	Time    time.Duration
	dead    bool
	poolKey string
	// timeoutMs is the per-query soft timeout the process was started with; Retried counts the
	// queries that came back unknown within it and were asked again with six times as long
	timeoutMs int
	Retried   int
}

// NewSolver starts a solver. kind is "z3", "z3-new" or "cvc5".
func NewSolver(kind string, timeoutMs int) (*Solver, error) {
	var cmd *exec.Cmd
	switch kind {
	case "z3":
		cmd = exec.Command("/usr/bin/z3", "-in", fmt.Sprintf("-t:%d", timeoutMs))
	case "z3-new":
		cmd = exec.Command("z3-new", "-in", fmt.Sprintf("-t:%d", timeoutMs))
	case "cvc5":
		cmd = exec.Command("cvc5", "--incremental", "--lang=smt2", "--produce-models", fmt.Sprintf("--tlimit-per=%d", timeoutMs))
	default:
		return nil, fmt.Errorf("unknown solver %q", kind)
	}
	in, err := cmd.StdinPipe()
	if err != nil {
		return nil, err
	}
	out, err := cmd.StdoutPipe()
	if err != nil {
		return nil, err
	}
	cmd.Stderr = cmd.Stdout
	if err := cmd.Start(); err != nil {
		return nil, err
	}
	s := &Solver{Name: kind, cmd: cmd, in: in, out: bufio.NewReaderSize(out, 1<<16), timeoutMs: timeoutMs}
	if kind == "cvc5" {
		s.Send("(set-logic ALL)")
	} else {
		s.Send("(set-option :produce-models true)")
	}
	return s, nil
}

func (s *Solver) Close() {
	if s == nil || s.dead {
		return
	}
	s.dead = true
	s.in.Close()
	done := make(chan struct{})
	go func() { s.cmd.Wait(); close(done) }()
	select {
	case <-done:
	case <-time.After(2 * time.Second):
		s.cmd.Process.Kill()
	}
}

func (s *Solver) Send(line string) {
	if s.Log != nil {
		fmt.Fprintln(s.Log, line)
	}
	io.WriteString(s.in, line)
	io.WriteString(s.in, "\n")
}

// roundTrip sends cmd followed by an echo marker and returns all lines printed before it.
func (s *Solver) roundTrip(cmd string) []string {
	t0 := time.Now()
	s.Send(cmd)
	s.Send(`(echo "@@done")`)
	var lines []string
	for {
		line, err := s.out.ReadString('\n')
		line = strings.TrimSpace(line)
		if line == "@@done" || line == `"@@done"` {
			break
		}
		if line != "" {
			lines = append(lines, line)
		}
		if err != nil {
			s.dead = true
			lines = append(lines, "(error \"solver pipe closed: "+err.Error()+"\")")
			break
		}
	}
	s.Time += time.Since(t0)
	if s.Log != nil {
		fmt.Fprintf(s.Log, "; -> %s\n", strings.Join(lines, " | "))
	}
	return lines
}

// CheckSat returns "sat", "unsat" or "unknown"; any (error line makes it "unknown".
func (s *Solver) CheckSat() string {
	lines := s.roundTrip("(check-sat)")
	res := "unknown"
	bad := false
	for _, l := range lines {
		switch {
		case l == "sat" || l == "unsat":
			res = l
		case strings.HasPrefix(l, "(error"):
			bad = true
		}
	}
	if bad {
		s.Errors++
		res = "unknown"
	}
	if res == "unknown" && !bad && !s.dead && s.Name != "cvc5" && s.timeoutMs > 0 {
		// a time-out, not an error: on a loaded machine a query that normally takes a few seconds
		// can miss the soft timeout; ask once more with six times as long (the assertion stack
		// is untouched) before the caller has to treat the branch as undecided
		s.Retried++
		s.Send(fmt.Sprintf("(set-option :timeout %d)", 6*s.timeoutMs))
		for _, l := range s.roundTrip("(check-sat)") {
			switch {
			case l == "sat" || l == "unsat":
				res = l
			case strings.HasPrefix(l, "(error"):
				bad = true
			}
		}
		s.Send(fmt.Sprintf("(set-option :timeout %d)", s.timeoutMs))
		if bad {
			s.Errors++
			res = "unknown"
		}
	}
	switch res {
	case "sat":
		s.Sat++
	case "unsat":
		s.Unsat++
	default:
		s.Unknown++
	}
	return res
}

// CheckWith checks the current context plus extra assertions, leaving the context unchanged.
func (s *Solver) CheckWith(extra ...*Term) string {
	s.Send("(push 1)")
	for _, e := range extra {
		s.Send("(assert " + e.SMT() + ")")
	}
	r := s.CheckSat()
	s.Send("(pop 1)")
	return r
}

// ModelWith checks ctx+extra and, if sat, returns values for the given symbols.
func (s *Solver) ModelWith(syms map[string]uint8, order []string, extra ...*Term) (string, map[string]uint64) {
	s.Send("(push 1)")
	defer s.Send("(pop 1)")
	for _, e := range extra {
		s.Send("(assert " + e.SMT() + ")")
	}
	r := s.CheckSat()
	if r != "sat" {
		return r, nil
	}
	return r, s.GetValues(syms, order)
}

// GetValues reads the model of the last sat check.
func (s *Solver) GetValues(syms map[string]uint8, order []string) map[string]uint64 {
	m := map[string]uint64{}
	if len(order) == 0 {
		return m
	}
	const chunk = 200
	for i := 0; i < len(order); i += chunk {
		j := i + chunk
		if j > len(order) {
			j = len(order)
		}
		var sb strings.Builder
		sb.WriteString("(get-value (")
		for _, n := range order[i:j] {
			sb.WriteString("|" + n + "| ")
		}
		sb.WriteString("))")
		lines := s.roundTrip(sb.String())
		parseValues(strings.Join(lines, " "), m)
	}
	return m
}

// parseValues parses ((|a| #x..) (b true) ((_ bv3 8)) ...) loosely.
func parseValues(txt string, into map[string]uint64) {
	toks := tokenize(txt)
	// pattern: "(" name value ")" where value is atom or "(_ bvN W)"
	for i := 0; i+2 < len(toks); i++ {
		if toks[i] != "(" || toks[i+1] == "(" || toks[i+1] == ")" {
			continue
		}
		name := strings.Trim(toks[i+1], "|")
		v := toks[i+2]
		switch {
		case v == "true":
			into[name] = 1
		case v == "false":
			into[name] = 0
		case strings.HasPrefix(v, "#x"):
			u, _ := strconv.ParseUint(v[2:], 16, 64)
			into[name] = u
		case strings.HasPrefix(v, "#b"):
			u, _ := strconv.ParseUint(v[2:], 2, 64)
			into[name] = u
		case v == "(" && i+4 < len(toks) && toks[i+3] == "_" && strings.HasPrefix(toks[i+4], "bv"):
			u, _ := strconv.ParseUint(toks[i+4][2:], 10, 64)
			into[name] = u
		}
	}
}

func tokenize(s string) []string {
	var out []string
	i := 0
	for i < len(s) {
		c := s[i]
		switch {
		case c == '(' || c == ')':
			out = append(out, string(c))
			i++
		case c == ' ' || c == '\t' || c == '\n':
			i++
		case c == '|':
			j := strings.IndexByte(s[i+1:], '|')
			if j < 0 {
				out = append(out, s[i:])
				return out
			}
			out = append(out, s[i:i+j+2])
			i += j + 2
		default:
			j := i
			for j < len(s) && !strings.ContainsRune("() \t\n", rune(s[j])) {
				j++
			}
			out = append(out, s[i:j])
			i = j
		}
	}
	return out
}
