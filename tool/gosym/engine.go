package gosym

import (
	"fmt"
	"os"
	"runtime/debug"
	"sort"
	"strings"
	"sync"
	"time"

	"golang.org/x/tools/go/packages"
	"golang.org/x/tools/go/ssa"
	"golang.org/x/tools/go/ssa/ssautil"
)

type Config struct {
	Solver         string
	TimeoutMs      int
	MaxSteps       int64
	MaxBlockVisits int
	MaxDepth       int
	MaxPaths       int
	MaxSymIndex    int
	Workers        int
	SamplePaths    int // number of complete paths whose model is recorded
	StopAtFirst    bool
	CrossEvery     int  // record every n-th feasibility query for cross-solver re-checking (0 = off)
	Merge          bool // enable region merging (if-conversion); off by default: merging the translate switch of a generated parser makes everything downstream symbolic
	Deadline       time.Time
}

func DefaultConfig() Config {
	return Config{Solver: "z3", TimeoutMs: 10000, MaxSteps: 20_000_000, MaxBlockVisits: 200_000,
		MaxDepth: 400, MaxPaths: 2_000_000, MaxSymIndex: 64, Workers: 8, SamplePaths: 3}
}

type Engine struct {
	Prog       *ssa.Program
	Pkgs       []*ssa.Package
	Cfg        Config
	Prefixes   []string // import-path prefixes of interpreted packages
	Intrinsics map[string]func(st *State, caller *frame, args []Value) Value
	// FaultSites: full names of functions at whose entry a symbolic fault flag may raise a panic (C19)
	FaultSites map[string]bool
	LoadTime   time.Duration
}

func (e *Engine) interpPkg(path string) bool {
	for _, p := range e.Prefixes {
		if path == p || strings.HasPrefix(path, p+"/") {
			return true
		}
	}
	return false
}

// Load type-checks patterns in dir (with overlay files) and builds SSA for the packages
// whose import path has one of the given prefixes.
func Load(dir string, patterns []string, overlay map[string][]byte, prefixes []string, buildTags string) (*Engine, error) {
	t0 := time.Now()
	env := append(os.Environ(), "GOFLAGS=-mod=mod", "GOPROXY=off", "GOSUMDB=off", "GOTOOLCHAIN=local")
	cfg := &packages.Config{
		Mode:    packages.LoadAllSyntax,
		Dir:     dir,
		Overlay: overlay,
		Env:     env,
	}
	if buildTags != "" {
		cfg.BuildFlags = []string{"-tags=" + buildTags}
	}
	pkgs, err := packages.Load(cfg, patterns...)
	if err != nil {
		return nil, fmt.Errorf("load: %w", err)
	}
	var errs []string
	packages.Visit(pkgs, nil, func(p *packages.Package) {
		for _, e := range p.Errors {
			errs = append(errs, e.Error())
		}
	})
	if len(errs) > 0 {
		if len(errs) > 12 {
			errs = errs[:12]
		}
		return nil, fmt.Errorf("harness does not build: %s", strings.Join(errs, "; "))
	}
	prog, _ := ssautil.AllPackages(pkgs, ssa.SanityCheckFunctions*0)
	e := &Engine{Prog: prog, Cfg: DefaultConfig(), Prefixes: prefixes, Intrinsics: map[string]func(*State, *frame, []Value) Value{}}
	for _, p := range prog.AllPackages() {
		if e.interpPkg(p.Pkg.Path()) {
			p.Build()
			e.Pkgs = append(e.Pkgs, p)
		}
	}
	sort.Slice(e.Pkgs, func(i, j int) bool { return e.Pkgs[i].Pkg.Path() < e.Pkgs[j].Pkg.Path() })
	e.LoadTime = time.Since(t0)
	return e, nil
}

func (e *Engine) Package(path string) *ssa.Package {
	for _, p := range e.Pkgs {
		if p.Pkg.Path() == path {
			return p
		}
	}
	return nil
}

func (e *Engine) Func(pkgPath, name string) *ssa.Function {
	p := e.Package(pkgPath)
	if p == nil {
		return nil
	}
	return p.Func(name)
}

type PathSample struct {
	Decisions string            `json:"decisions"`
	PC        string            `json:"path_condition"`
	Model     map[string]int64  `json:"model"`
	Covers    []string          `json:"covers,omitempty"`
	Status    string            `json:"status"`
	Extra     map[string]string `json:"extra,omitempty"`
}

type Report struct {
	Entry       string
	Paths       int
	Decisions   int
	Status      map[string]int
	Violations  []Violation
	Unwound     []Violation
	Cross       []CrossQuery
	Covers      map[string]int
	Notes       map[string]bool
	Funcs       map[string]int64
	Stubs       map[string]int
	Samples     []PathSample
	SolverSat   int
	SolverUnsat int
	SolverUnk   int
	SolverErr   int
	SolverTime  time.Duration
	Wall        time.Duration
	Steps       int64
	Problems    []string // unwind / unsupported / unknown / abort messages
	Truncated   bool
	MaxDecLen   int
}

func (r *Report) Inconclusive() bool { return len(r.Problems) > 0 || r.Truncated }

// Merge folds another report into r.
func (r *Report) Merge(o *Report) {
	r.Paths += o.Paths
	r.Decisions += o.Decisions
	r.Steps += o.Steps
	for k, v := range o.Status {
		r.Status[k] += v
	}
	r.Violations = append(r.Violations, o.Violations...)
	r.Unwound = append(r.Unwound, o.Unwound...)
	if len(r.Cross) < 200 {
		r.Cross = append(r.Cross, o.Cross...)
	}
	for k, v := range o.Covers {
		r.Covers[k] += v
	}
	for k := range o.Notes {
		r.Notes[k] = true
	}
	for k, v := range o.Funcs {
		r.Funcs[k] += v
	}
	for k, v := range o.Stubs {
		r.Stubs[k] += v
	}
	if len(r.Samples) < 6 {
		r.Samples = append(r.Samples, o.Samples...)
	}
	r.SolverSat += o.SolverSat
	r.SolverUnsat += o.SolverUnsat
	r.SolverUnk += o.SolverUnk
	r.SolverErr += o.SolverErr
	r.SolverTime += o.SolverTime
	r.Wall += o.Wall
	r.Problems = append(r.Problems, o.Problems...)
	r.Truncated = r.Truncated || o.Truncated
	if o.MaxDecLen > r.MaxDecLen {
		r.MaxDecLen = o.MaxDecLen
	}
}

func NewReport(entry string) *Report {
	return &Report{Entry: entry, Status: map[string]int{}, Covers: map[string]int{}, Notes: map[string]bool{},
		Funcs: map[string]int64{}, Stubs: map[string]int{}}
}

type pathOutcome struct {
	status  string
	msg     string
	st      *State
	sample  *PathSample
	elapsed time.Duration
}

// Explore runs entry(args...) over all feasible paths.
func (e *Engine) Explore(entry *ssa.Function, args []Value, setup func(st *State), cfgp *Config) *Report {
	return e.ExploreFunc(entry.String(), func(st *State) {
		if setup != nil {
			setup(st)
		}
		st.call(nil, 0, entry, args)
	}, cfgp)
}

// ExploreFunc explores all feasible paths of an arbitrary driver function.
func (e *Engine) ExploreFunc(name string, run func(st *State), cfgp *Config) *Report {
	cfg := e.Cfg
	if cfgp != nil {
		cfg = *cfgp
	}
	t0 := time.Now()
	rep := NewReport(name)
	var mu sync.Mutex
	cond := sync.NewCond(&mu)
	work := [][]Decision{nil}
	active := 0
	stop := false
	sampled := 0

	workers := cfg.Workers
	if workers < 1 {
		workers = 1
	}
	var wg sync.WaitGroup
	for w := 0; w < workers; w++ {
		wg.Add(1)
		go func() {
			defer wg.Done()
			var sol *Solver
			var base [5]int
			var baseT time.Duration
			defer func() {
				if sol != nil {
					mu.Lock()
					rep.SolverSat += sol.Sat - base[0]
					rep.SolverUnsat += sol.Unsat - base[1]
					rep.SolverUnk += sol.Unknown - base[2]
					rep.SolverErr += sol.Errors - base[3]
					rep.SolverTime += sol.Time - baseT
					mu.Unlock()
					releaseSolver(sol)
				}
			}()
			for {
				mu.Lock()
				for len(work) == 0 && active > 0 && !stop {
					cond.Wait()
				}
				if stop || (len(work) == 0 && active == 0) {
					mu.Unlock()
					cond.Broadcast()
					return
				}
				prefix := work[len(work)-1]
				work = work[:len(work)-1]
				active++
				wantSample := sampled < cfg.SamplePaths
				if wantSample {
					sampled++
				}
				mu.Unlock()

				if sol == nil || sol.dead {
					var err error
					sol, err = acquireSolver(cfg.Solver, cfg.TimeoutMs)
					if err == nil {
						base = [5]int{sol.Sat, sol.Unsat, sol.Unknown, sol.Errors, 0}
						baseT = sol.Time
					}
					if err != nil {
						mu.Lock()
						rep.Problems = append(rep.Problems, "solver: "+err.Error())
						stop = true
						active--
						mu.Unlock()
						cond.Broadcast()
						return
					}
				}
				out := e.runPath(sol, run, prefix, wantSample, &cfg)

				mu.Lock()
				active--
				rep.Paths++
				rep.Status[out.status]++
				st := out.st
				rep.Decisions += st.newDecs
				rep.Steps += st.steps
				if len(st.decisions) > rep.MaxDecLen {
					rep.MaxDecLen = len(st.decisions)
				}
				for c := range st.covers {
					rep.Covers[c]++
				}
				for n := range st.notes {
					rep.Notes[n] = true
				}
				for f, c := range st.fnCount {
					rep.Funcs[f.String()] += c
				}
				for s, c := range st.stubs {
					rep.Stubs[s] += c
				}
				rep.Violations = append(rep.Violations, st.viol...)
				rep.Unwound = append(rep.Unwound, st.unwound...)
				if len(rep.Cross) < 60 {
					rep.Cross = append(rep.Cross, st.cross...)
				}
				if out.sample != nil && len(rep.Samples) < cfg.SamplePaths {
					rep.Samples = append(rep.Samples, *out.sample)
				}
				switch out.status {
				case "unwind", "unsupported", "unknown", "abort", "panic", "deadlock", "internal":
					if len(rep.Problems) < 20 {
						rep.Problems = append(rep.Problems, out.status+": "+out.msg+" ["+decString(st.decisions)+"]")
					}
				}
				if st.unknowns > 0 && len(rep.Problems) < 20 {
					rep.Problems = append(rep.Problems, fmt.Sprintf("solver unknown on %d queries", st.unknowns))
				}
				work = append(work, st.forks...)
				if rep.Paths >= cfg.MaxPaths || (!cfg.Deadline.IsZero() && time.Now().After(cfg.Deadline)) {
					if len(work) > 0 || active > 0 {
						rep.Truncated = true
					}
					stop = true
				}
				if cfg.StopAtFirst && len(rep.Violations) > 0 {
					stop = true
				}
				mu.Unlock()
				cond.Broadcast()
			}
		}()
	}
	wg.Wait()
	rep.Wall = time.Since(t0)
	return rep
}

func decString(ds []Decision) string {
	var sb strings.Builder
	for _, d := range ds {
		sb.WriteString(d.String())
	}
	s := sb.String()
	if len(s) > 160 {
		s = s[:160] + "…"
	}
	return s
}

func (e *Engine) newState(sol *Solver, prefix []Decision, cfg *Config) *State {
	return &State{
		eng: e, sol: sol, prefix: prefix, cfg: cfg, mapOrderInstance: -1,
		bind: map[string]*Term{}, symW: map[string]uint8{}, nameCount: map[string]int{},
		globals: map[*ssa.Global]*Value{}, covers: map[string]bool{},
		fnCount: map[*ssa.Function]int64{}, stubs: map[string]int{},
		UserData: map[string]interface{}{},
	}
}

func (e *Engine) runPath(sol *Solver, run func(*State), prefix []Decision, wantSample bool, cfg *Config) (out pathOutcome) {
	st := e.newState(sol, prefix, cfg)
	out.st = st
	sol.Send("(push 1)")
	defer func() {
		r := recover()
		switch r := r.(type) {
		case nil:
		case pathEnd:
			out.status, out.msg = r.Status, r.Msg
		case *goPanic:
			out.status, out.msg = "panic", "uncaught panic: "+r.Msg
		case unsupportedErr:
			out.status, out.msg = "unsupported", r.what
		case abortCo:
			out.status, out.msg = "abort", "coroutine abort leaked"
		default:
			out.status, out.msg = "internal", fmt.Sprintf("%v\n%s", r, trimStack(debug.Stack()))
		}
		func() {
			defer func() {
				if r := recover(); r != nil {
					out.status, out.msg = "internal", fmt.Sprintf("cleanup: %v", r)
				}
			}()
			st.cleanupCoroutines()
		}()
		if (out.status == "unwind" || out.status == "deadlock") && !sol.dead {
			if m, ok := st.PathModel(); ok {
				st.unwound = append(st.unwound, Violation{What: out.status + ": " + out.msg, Model: m,
					Syms: append([]string(nil), st.symOrder...), Prefix: append([]Decision(nil), st.decisions...)})
			}
		}
		if wantSample && (out.status == "ok" || out.status == "violated") && !sol.dead {
			if m, ok := st.PathModel(); ok {
				sm := map[string]int64{}
				for k, v := range m {
					sm[k] = signExt(v, st.symW[k])
				}
				out.sample = &PathSample{Decisions: decString(st.decisions), PC: st.pcString(), Model: sm,
					Covers: sortedKeys(st.covers), Status: out.status}
			}
		}
		sol.Send("(pop 1)")
	}()
	// package initialisers of interpreted packages
	for _, p := range e.Pkgs {
		if init := p.Func("init"); init != nil {
			st.runInit(init)
		}
	}
	run(st)
	out.status = "ok"
	return
}

func (st *State) runInit(init *ssa.Function) {
	if st.inited == nil {
		st.inited = map[*ssa.Function]bool{}
	}
	if st.inited[init] {
		return
	}
	st.inited[init] = true
	st.call(nil, 0, init, nil)
}

func trimStack(b []byte) string {
	s := string(b)
	lines := strings.Split(s, "\n")
	if len(lines) > 40 {
		lines = lines[:40]
	}
	return strings.Join(lines, "\n")
}

// ---- solver pool: processes are reused across explorations (contexts are push/pop-balanced) ----

var (
	poolMu sync.Mutex
	pool   = map[string][]*Solver{}
)

func acquireSolver(kind string, timeoutMs int) (*Solver, error) {
	key := fmt.Sprintf("%s/%d", kind, timeoutMs)
	poolMu.Lock()
	if l := pool[key]; len(l) > 0 {
		s := l[len(l)-1]
		pool[key] = l[:len(l)-1]
		poolMu.Unlock()
		return s, nil
	}
	poolMu.Unlock()
	s, err := NewSolver(kind, timeoutMs)
	if err == nil {
		s.poolKey = key
	}
	return s, err
}

func releaseSolver(s *Solver) {
	if s == nil || s.dead {
		if s != nil {
			s.Close()
		}
		return
	}
	poolMu.Lock()
	pool[s.poolKey] = append(pool[s.poolKey], s)
	poolMu.Unlock()
}

// CloseSolvers terminates all pooled solver processes.
func CloseSolvers() {
	poolMu.Lock()
	defer poolMu.Unlock()
	for k, l := range pool {
		for _, s := range l {
			s.Close()
		}
		delete(pool, k)
	}
}

// ---- API for drivers outside the package (tsmini, cross-language checks) ----

func (st *State) Fresh(name string, w uint8) *Term { return st.fresh(name, w) }
func (st *State) Cover(label string)               { st.covers[label] = true }
func (st *State) Simp(t *Term) *Term               { return st.simp(t) }
func (st *State) Note(s string)                    { st.note(s) }
func (st *State) End(status, msg string)           { st.end(status, msg) }
func (st *State) Step(n int64) {
	st.steps += n
	if st.steps > st.cfg.MaxSteps {
		st.end("unwind", fmt.Sprintf("step budget %d exceeded", st.cfg.MaxSteps))
	}
}
func (st *State) Printed(s string) { st.Output = append(st.Output, s) }

// PanicInfo describes a modelled Go panic that escaped a called function.
type PanicInfo struct {
	Kind string
	Msg  string
}

// CallFunc calls an interpreted function; a modelled panic is returned, not propagated.
func (st *State) CallFunc(fn *ssa.Function, args []Value) (res Value, pi *PanicInfo) {
	defer func() {
		if r := recover(); r != nil {
			if gp, ok := r.(*goPanic); ok {
				pi = &PanicInfo{Kind: gp.Kind, Msg: gp.Msg}
				return
			}
			panic(r)
		}
	}()
	return st.call(nil, 0, fn, args), nil
}
