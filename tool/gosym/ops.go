package gosym

import (
	"fmt"
	"go/constant"
	"go/token"
	"go/types"
	"strings"
	"unicode/utf8"

	"golang.org/x/tools/go/ssa"
)

func constString(c *ssa.Const) string {
	if c.Value.Kind() == constant.String {
		return constant.StringVal(c.Value)
	}
	// string(const int)
	return string(rune(c.Int64()))
}

func constBool(c *ssa.Const) bool { return constant.BoolVal(c.Value) }

func decodeRune(s string) (rune, int) { return utf8.DecodeRuneInString(s) }

func (st *State) binop(op token.Token, xt types.Type, x, y Value) Value {
	if gv, ok := x.(*GV); ok && op != token.EQL && op != token.NEQ {
		x = gv.V[st.forceGV(gv)]
	}
	if gv, ok := y.(*GV); ok && op != token.EQL && op != token.NEQ {
		y = gv.V[st.forceGV(gv)]
	}
	switch op {
	case token.EQL:
		return st.equals(x, y)
	case token.NEQ:
		return Not(st.equals(x, y))
	}
	switch a := x.(type) {
	case *Term:
		b := y.(*Term)
		w, signed, _ := scalarInfo(xt)
		_ = w
		switch op {
		case token.ADD:
			return Bin(OpAdd, a, b)
		case token.SUB:
			return Bin(OpSub, a, b)
		case token.MUL:
			return Bin(OpMul, a, b)
		case token.QUO, token.REM:
			if st.Branch(Cmp(OpEq, b, Const(b.W, 0))) {
				st.goPanicf("div", "integer divide by zero")
			}
			b = st.simp(b)
			if op == token.QUO {
				if signed {
					return Bin(OpSDiv, a, b)
				}
				return Bin(OpUDiv, a, b)
			}
			if signed {
				return Bin(OpSRem, a, b)
			}
			return Bin(OpURem, a, b)
		case token.AND:
			if a.W == 0 {
				return And(a, b)
			}
			return Bin(OpAnd, a, b)
		case token.OR:
			if a.W == 0 {
				return Or(a, b)
			}
			return Bin(OpOr, a, b)
		case token.XOR:
			return Bin(OpXor, a, b)
		case token.AND_NOT:
			return Bin(OpAnd, a, Un(OpNot, b))
		case token.SHL:
			return Bin(OpShl, a, Resize(b, a.W, false))
		case token.SHR:
			if signed {
				return Bin(OpAShr, a, Resize(b, a.W, false))
			}
			return Bin(OpLShr, a, Resize(b, a.W, false))
		case token.LSS:
			if signed {
				return Cmp(OpSLt, a, b)
			}
			return Cmp(OpULt, a, b)
		case token.LEQ:
			if signed {
				return Cmp(OpSLe, a, b)
			}
			return Cmp(OpULe, a, b)
		case token.GTR:
			if signed {
				return Cmp(OpSLt, b, a)
			}
			return Cmp(OpULt, b, a)
		case token.GEQ:
			if signed {
				return Cmp(OpSLe, b, a)
			}
			return Cmp(OpULe, b, a)
		}
	case string, *SymStr:
		switch op {
		case token.ADD:
			return st.concat(x, y)
		case token.LSS, token.LEQ, token.GTR, token.GEQ:
			sa, ok1 := x.(string)
			sb, ok2 := y.(string)
			if !ok1 || !ok2 {
				panic(unsupported("ordering of symbolic strings"))
			}
			switch op {
			case token.LSS:
				return BoolT(sa < sb)
			case token.LEQ:
				return BoolT(sa <= sb)
			case token.GTR:
				return BoolT(sa > sb)
			default:
				return BoolT(sa >= sb)
			}
		}
	}
	panic(unsupported(fmt.Sprintf("binop %s on %T", op, x)))
}

func (st *State) concat(x, y Value) Value {
	if a, ok := x.(string); ok {
		if b, ok := y.(string); ok {
			return a + b
		}
	}
	bs := append(append([]*Term(nil), strBytes(x)...), strBytes(y)...)
	return mkStr(bs)
}

// equals returns a Bool term for x == y.
func (st *State) equals(x, y Value) *Term {
	if gx, ok := x.(*GV); ok {
		out := False
		for i := range gx.V {
			out = Or(out, And(gx.G[i], st.equals(gx.V[i], y)))
		}
		return out
	}
	if _, ok := y.(*GV); ok {
		return st.equals(y, x)
	}
	switch a := x.(type) {
	case *Term:
		b, ok := y.(*Term)
		if !ok {
			return False
		}
		return Cmp(OpEq, a, b)
	case string:
		switch b := y.(type) {
		case string:
			return BoolT(a == b)
		case *SymStr:
			return st.eqBytes(strBytes(a), b.B)
		}
		return False
	case *SymStr:
		if _, ok := y.(Iface); ok {
			return False
		}
		return st.eqBytes(a.B, strBytes(y))
	case *Value:
		b, ok := y.(*Value)
		return BoolT(ok && a == b)
	case *Map:
		b, ok := y.(*Map)
		return BoolT(ok && a == b)
	case *Chan:
		b, ok := y.(*Chan)
		return BoolT(ok && a == b)
	case Slice:
		b, ok := y.(Slice)
		if ok && (a == nil || b == nil) {
			return BoolT(a == nil && b == nil)
		}
		panic(unsupported("comparison of non-nil slices"))
	case *ssa.Function:
		b, ok := y.(*ssa.Function)
		if ok {
			return BoolT(a == b)
		}
		if _, isC := y.(*Closure); isC {
			return False
		}
		return False
	case *Closure:
		if b, ok := y.(*ssa.Function); ok && b == nil {
			return False
		}
		b, ok := y.(*Closure)
		return BoolT(ok && a == b)
	case *ssa.Builtin:
		return BoolT(x == y)
	case Struct:
		b := y.(Struct)
		out := True
		for i := range a {
			out = And(out, st.equals(a[i], b[i]))
		}
		return out
	case Array:
		b := y.(Array)
		out := True
		for i := range a {
			out = And(out, st.equals(a[i], b[i]))
		}
		return out
	case Iface:
		b, ok := y.(Iface)
		if !ok {
			return False
		}
		if a.T == nil || b.T == nil {
			return BoolT(a.T == nil && b.T == nil)
		}
		if !types.Identical(a.T, b.T) {
			return False
		}
		return st.equals(a.V, b.V)
	case nil:
		return BoolT(y == nil)
	}
	panic(unsupported(fmt.Sprintf("equality on %T", x)))
}

func (st *State) eqBytes(a, b []*Term) *Term {
	if len(a) != len(b) {
		return False
	}
	out := True
	for i := range a {
		out = And(out, Cmp(OpEq, a[i], b[i]))
		if out.IsFalse() {
			return out
		}
	}
	return out
}

// iteVal builds "if g then a else b" for values of the same Go type.
func (st *State) iteVal(g *Term, a, b Value) Value {
	if g.IsTrue() {
		return a
	}
	if g.IsFalse() {
		return b
	}
	switch x := a.(type) {
	case *Term:
		if y, ok := b.(*Term); ok {
			return Ite(g, x, y)
		}
	case Struct:
		y := b.(Struct)
		out := make(Struct, len(x))
		for i := range x {
			out[i] = st.iteVal(g, x[i], y[i])
		}
		return out
	case Array:
		y := b.(Array)
		out := make(Array, len(x))
		for i := range x {
			out[i] = st.iteVal(g, x[i], y[i])
		}
		return out
	case string:
		if y, ok := b.(string); ok && x == y {
			return x
		}
		if isStr(b) && strLen(b) == len(x) {
			xb, yb := strBytes(x), strBytes(b)
			out := make([]*Term, len(xb))
			for i := range xb {
				out[i] = Ite(g, xb[i], yb[i])
			}
			return mkStr(out)
		}
	case *SymStr:
		if isStr(b) && strLen(b) == len(x.B) {
			yb := strBytes(b)
			out := make([]*Term, len(x.B))
			for i := range x.B {
				out[i] = Ite(g, x.B[i], yb[i])
			}
			return mkStr(out)
		}
	case *Value:
		if y, ok := b.(*Value); ok && x == y {
			return x
		}
	}
	if a == nil && b == nil {
		return nil
	}
	// general guarded choice
	out := &GV{}
	add := func(guard *Term, v Value) {
		if gv, ok := v.(*GV); ok {
			for i := range gv.V {
				out.G = append(out.G, And(guard, gv.G[i]))
				out.V = append(out.V, gv.V[i])
			}
			return
		}
		out.G = append(out.G, guard)
		out.V = append(out.V, v)
	}
	add(g, a)
	add(Not(g), b)
	return st.normGV(out)
}

// normGV drops impossible cases and collapses singletons / all-scalar choices.
func (st *State) normGV(gv *GV) Value {
	out := &GV{}
	for i := range gv.V {
		g := st.simp(gv.G[i])
		if g.IsFalse() {
			continue
		}
		if g.IsTrue() {
			return gv.V[i]
		}
		out.G = append(out.G, g)
		out.V = append(out.V, gv.V[i])
	}
	if len(out.V) == 1 {
		return out.V[0]
	}
	if len(out.V) == 0 {
		st.end("killed", "empty guarded choice")
	}
	allTerm := true
	for _, v := range out.V {
		if _, ok := v.(*Term); !ok {
			allTerm = false
		}
	}
	if allTerm {
		t := out.V[len(out.V)-1].(*Term)
		for i := len(out.V) - 2; i >= 0; i-- {
			t = Ite(out.G[i], out.V[i].(*Term), t)
		}
		return t
	}
	return out
}

// forceGV forks over the cases of a guarded value and returns the index chosen.
func (st *State) forceGV(gv *GV) int {
	for i := 0; i < len(gv.V)-1; i++ {
		if st.Branch(gv.G[i]) {
			return i
		}
	}
	last := len(gv.V) - 1
	st.Assume(gv.G[last])
	return last
}

func (st *State) conv(dst, src types.Type, x Value) Value {
	if gv, ok := x.(*GV); ok {
		x = gv.V[st.forceGV(gv)]
	}
	ud, us := dst.Underlying(), src.Underlying()
	switch ud := ud.(type) {
	case *types.Basic:
		if ud.Info()&types.IsString != 0 {
			switch xs := x.(type) {
			case string, *SymStr:
				return x
			case *Term: // string(rune)
				if xs.IsConst() {
					return string(rune(xs.Int()))
				}
				st.requireASCII(xs)
				return mkStr([]*Term{Resize(xs, 8, false)})
			case Slice: // []byte or []rune
				if xs == nil {
					return ""
				}
				et := us.(*types.Slice).Elem()
				w, _, _ := scalarInfo(et)
				bs := make([]*Term, 0, len(xs))
				if w == 8 {
					for _, e := range xs {
						bs = append(bs, e.(*Term))
					}
					return mkStr(bs)
				}
				var sb strings.Builder
				allConst := true
				for _, e := range xs {
					t := e.(*Term)
					if !t.IsConst() {
						allConst = false
						break
					}
					sb.WriteRune(rune(t.Int()))
				}
				if allConst {
					return sb.String()
				}
				for _, e := range xs {
					t := e.(*Term)
					st.requireASCII(t)
					bs = append(bs, Resize(t, 8, false))
				}
				return mkStr(bs)
			}
		}
		if t, ok := x.(*Term); ok {
			w, _, ok2 := intWidth(ud)
			if !ok2 {
				panic(unsupported("conversion to " + dst.String()))
			}
			_, ssigned, _ := scalarInfo(src)
			if w == 0 {
				return t
			}
			return Resize(t, w, ssigned)
		}
		if ud.Kind() == types.UnsafePointer {
			return x
		}
	case *types.Slice:
		// string -> []byte / []rune
		switch xs := x.(type) {
		case string, *SymStr:
			w, _, _ := scalarInfo(ud.Elem())
			if w == 8 {
				bs := strBytes(xs)
				out := make(Slice, len(bs))
				for i, b := range bs {
					out[i] = b
				}
				return out
			}
			if s, ok := xs.(string); ok {
				var out Slice
				for _, r := range s {
					out = append(out, ConstInt(32, int64(r)))
				}
				return out
			}
			bs := strBytes(xs)
			out := make(Slice, len(bs))
			for i, b := range bs {
				st.requireASCII(b)
				out[i] = Resize(b, 32, false)
			}
			return out
		case Slice:
			return x
		}
	case *types.Pointer:
		return x
	}
	panic(unsupported(fmt.Sprintf("conversion %s -> %s (%T)", src, dst, x)))
}

// format renders a concrete value approximately like fmt's %v.
func (st *State) format(v Value) string {
	switch x := v.(type) {
	case nil:
		return "<nil>"
	case *Term:
		if x.IsConst() {
			if x.W == 0 {
				return fmt.Sprint(x.C == 1)
			}
			return fmt.Sprint(x.Int())
		}
		st.note("fmt of a symbolic scalar rendered opaquely")
		return "⟦" + x.SMT() + "⟧"
	case string:
		return x
	case *SymStr:
		st.note("fmt of a symbolic string rendered opaquely")
		var sb strings.Builder
		for _, b := range x.B {
			if b.IsConst() {
				sb.WriteByte(byte(b.C))
			} else {
				sb.WriteString("⟦?⟧")
			}
		}
		return sb.String()
	case Iface:
		if x.T == nil {
			return "<nil>"
		}
		return st.formatTyped(x.V, x.T)
	case Struct:
		parts := make([]string, len(x))
		for i, f := range x {
			parts[i] = st.format(f)
		}
		return "{" + strings.Join(parts, " ") + "}"
	case Array:
		parts := make([]string, len(x))
		for i, f := range x {
			parts[i] = st.format(f)
		}
		return "[" + strings.Join(parts, " ") + "]"
	case Slice:
		parts := make([]string, len(x))
		for i, f := range x {
			parts[i] = st.format(f)
		}
		return "[" + strings.Join(parts, " ") + "]"
	case *Value:
		if x == nil {
			return "<nil>"
		}
		if s, ok := (*x).(Struct); ok {
			return "&" + st.format(s)
		}
		return fmt.Sprintf("%p", x)
	case *GV:
		return st.format(x.V[st.forceGV(x)])
	}
	return fmt.Sprintf("%v", v)
}

func (st *State) formatTyped(v Value, t types.Type) string {
	if t != nil {
		if _, signed, ok := scalarInfo(t); ok {
			if tm, isT := v.(*Term); isT && tm.IsConst() && tm.W != 0 && !signed {
				return fmt.Sprint(tm.C)
			}
		}
	}
	return st.format(v)
}

func isStr(v Value) bool {
	switch v.(type) {
	case string, *SymStr:
		return true
	}
	return false
}
