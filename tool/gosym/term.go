// Package gosym is a small symbolic executor for go/ssa with an SMT back end.
//
// Scalars are bit-vector / Bool terms (Go's wrapping semantics), the heap is concrete,
// paths are explored by re-execution with a decision prefix.
package gosym

import (
	"fmt"
	"strings"
)

type Op uint8

const (
	OpConst Op = iota
	OpSym
	OpAdd
	OpSub
	OpMul
	OpSDiv
	OpUDiv
	OpSRem
	OpURem
	OpAnd
	OpOr
	OpXor
	OpShl
	OpLShr
	OpAShr
	OpNeg
	OpNot // bitwise complement
	OpEq
	OpSLt
	OpSLe
	OpULt
	OpULe
	OpBAnd
	OpBOr
	OpBNot
	OpIte
	OpZExt
	OpSExt
	OpExtract // low w bits
)

var opSMT = map[Op]string{
	OpAdd: "bvadd", OpSub: "bvsub", OpMul: "bvmul", OpSDiv: "bvsdiv", OpUDiv: "bvudiv",
	OpSRem: "bvsrem", OpURem: "bvurem", OpAnd: "bvand", OpOr: "bvor", OpXor: "bvxor",
	OpShl: "bvshl", OpLShr: "bvlshr", OpAShr: "bvashr", OpNeg: "bvneg", OpNot: "bvnot",
	OpEq: "=", OpSLt: "bvslt", OpSLe: "bvsle", OpULt: "bvult", OpULe: "bvule",
	OpBAnd: "and", OpBOr: "or", OpBNot: "not", OpIte: "ite",
}

// Term is an immutable scalar term. W is the width in bits, 0 for Bool.
type Term struct {
	Op      Op
	W       uint8
	C       uint64 // OpConst: value masked to W (bool: 0/1)
	A, B, X *Term
	Name    string // OpSym
	str     string
	size    int
}

func mask(w uint8) uint64 {
	if w >= 64 {
		return ^uint64(0)
	}
	return (uint64(1) << w) - 1
}

var constCache [5][258]*Term

func widthSlot(w uint8) int {
	switch w {
	case 0:
		return 0
	case 8:
		return 1
	case 16:
		return 2
	case 32:
		return 3
	default:
		return 4
	}
}

func init() {
	for _, w := range []uint8{0, 8, 16, 32, 64} {
		for i := 0; i < 258; i++ {
			v := uint64(int64(i-1)) & mask(w) // slot 0 is -1
			if w == 0 {
				v = uint64(i-1) & 1
			}
			constCache[widthSlot(w)][i] = &Term{Op: OpConst, W: w, C: v, size: 1}
		}
	}
}

var (
	True  = &Term{Op: OpConst, W: 0, C: 1, size: 1}
	False = &Term{Op: OpConst, W: 0, C: 0, size: 1}
)

func Const(w uint8, v uint64) *Term {
	v &= mask(w)
	if w != 0 {
		if v < 257 {
			return constCache[widthSlot(w)][v+1]
		}
		if v == mask(w) {
			return constCache[widthSlot(w)][0]
		}
	} else {
		return BoolT(v != 0)
	}
	return &Term{Op: OpConst, W: w, C: v, size: 1}
}

func ConstInt(w uint8, v int64) *Term { return Const(w, uint64(v)) }

func BoolT(b bool) *Term {
	if b {
		return True
	}
	return False
}

func Sym(name string, w uint8) *Term { return &Term{Op: OpSym, W: w, Name: name, size: 1} }

func (t *Term) IsConst() bool { return t.Op == OpConst }
func (t *Term) IsTrue() bool  { return t.Op == OpConst && t.W == 0 && t.C == 1 }
func (t *Term) IsFalse() bool { return t.Op == OpConst && t.W == 0 && t.C == 0 }

// Int returns the constant as a sign-extended int64.
func (t *Term) Int() int64 { return signExt(t.C, t.W) }

func signExt(v uint64, w uint8) int64 {
	if w == 0 || w >= 64 {
		return int64(v)
	}
	sh := 64 - uint(w)
	return int64(v<<sh) >> sh
}

func sz(ts ...*Term) int {
	n := 1
	for _, t := range ts {
		if t != nil {
			n += t.size
		}
	}
	return n
}

func foldBin(op Op, w uint8, a, b uint64) (uint64, bool) {
	m := mask(w)
	sa, sb := signExt(a, w), signExt(b, w)
	switch op {
	case OpAdd:
		return (a + b) & m, true
	case OpSub:
		return (a - b) & m, true
	case OpMul:
		return (a * b) & m, true
	case OpSDiv:
		if b == 0 {
			return 0, false
		}
		if sb == -1 {
			return uint64(-sa) & m, true
		}
		return uint64(sa/sb) & m, true
	case OpUDiv:
		if b == 0 {
			return 0, false
		}
		return (a / b) & m, true
	case OpSRem:
		if b == 0 {
			return 0, false
		}
		if sb == -1 {
			return 0, true
		}
		return uint64(sa%sb) & m, true
	case OpURem:
		if b == 0 {
			return 0, false
		}
		return (a % b) & m, true
	case OpAnd:
		return a & b, true
	case OpOr:
		return a | b, true
	case OpXor:
		return a ^ b, true
	case OpShl:
		if b >= uint64(w) {
			return 0, true
		}
		return (a << b) & m, true
	case OpLShr:
		if b >= uint64(w) {
			return 0, true
		}
		return (a >> b) & m, true
	case OpAShr:
		if b >= uint64(w) {
			if sa < 0 {
				return m, true
			}
			return 0, true
		}
		return uint64(sa>>b) & m, true
	}
	return 0, false
}

// Bin builds an arithmetic/bitwise term; both operands have the same width.
func Bin(op Op, a, b *Term) *Term {
	if a.W != b.W {
		panic(fmt.Sprintf("gosym: width mismatch %d vs %d in %v", a.W, b.W, op))
	}
	if a.IsConst() && b.IsConst() {
		if v, ok := foldBin(op, a.W, a.C, b.C); ok {
			return Const(a.W, v)
		}
	}
	switch op {
	case OpAdd:
		if a.IsConst() && a.C == 0 {
			return b
		}
		if b.IsConst() && b.C == 0 {
			return a
		}
	case OpSub:
		if b.IsConst() && b.C == 0 {
			return a
		}
		if a == b {
			return Const(a.W, 0)
		}
	case OpMul:
		if a.IsConst() && a.C == 1 {
			return b
		}
		if b.IsConst() && b.C == 1 {
			return a
		}
		if (a.IsConst() && a.C == 0) || (b.IsConst() && b.C == 0) {
			return Const(a.W, 0)
		}
	case OpAnd:
		if a == b {
			return a
		}
	case OpOr:
		if a == b {
			return a
		}
	}
	return &Term{Op: op, W: a.W, A: a, B: b, size: sz(a, b)}
}

func Un(op Op, a *Term) *Term {
	if a.IsConst() {
		switch op {
		case OpNeg:
			return Const(a.W, -a.C)
		case OpNot:
			return Const(a.W, ^a.C)
		}
	}
	return &Term{Op: op, W: a.W, A: a, size: sz(a)}
}

// Cmp builds a Bool term from two same-width operands.
func Cmp(op Op, a, b *Term) *Term {
	if a.W != b.W {
		panic(fmt.Sprintf("gosym: width mismatch %d vs %d in cmp", a.W, b.W))
	}
	if a.W == 0 {
		if op != OpEq {
			panic("gosym: ordering on Bool")
		}
		// a == b on bools
		if a.IsConst() {
			if a.C == 1 {
				return b
			}
			return Not(b)
		}
		if b.IsConst() {
			if b.C == 1 {
				return a
			}
			return Not(a)
		}
		if a == b {
			return True
		}
		return &Term{Op: OpEq, W: 0, A: a, B: b, size: sz(a, b)}
	}
	if a.IsConst() && b.IsConst() {
		sa, sb := signExt(a.C, a.W), signExt(b.C, b.W)
		switch op {
		case OpEq:
			return BoolT(a.C == b.C)
		case OpSLt:
			return BoolT(sa < sb)
		case OpSLe:
			return BoolT(sa <= sb)
		case OpULt:
			return BoolT(a.C < b.C)
		case OpULe:
			return BoolT(a.C <= b.C)
		}
	}
	if a == b {
		switch op {
		case OpEq, OpSLe, OpULe:
			return True
		default:
			return False
		}
	}
	// zext(x) == const that does not fit: false; otherwise narrow.
	if op == OpEq {
		if a.IsConst() && !b.IsConst() {
			a, b = b, a
		}
		if (a.Op == OpZExt || a.Op == OpSExt) && b.IsConst() {
			in := a.A
			var back uint64
			if a.Op == OpZExt {
				back = b.C & mask(in.W)
			} else {
				back = uint64(signExt(b.C&mask(in.W), in.W)) & mask(a.W)
			}
			if back != b.C {
				return False
			}
			return Cmp(OpEq, in, Const(in.W, b.C&mask(in.W)))
		}
	}
	return &Term{Op: op, W: 0, A: a, B: b, size: sz(a, b)}
}

func Not(a *Term) *Term {
	if a.IsConst() {
		return BoolT(a.C == 0)
	}
	if a.Op == OpBNot {
		return a.A
	}
	return &Term{Op: OpBNot, W: 0, A: a, size: sz(a)}
}

func And(a, b *Term) *Term {
	if a.IsConst() {
		if a.C == 1 {
			return b
		}
		return False
	}
	if b.IsConst() {
		if b.C == 1 {
			return a
		}
		return False
	}
	if a == b {
		return a
	}
	return &Term{Op: OpBAnd, W: 0, A: a, B: b, size: sz(a, b)}
}

func Or(a, b *Term) *Term {
	if a.IsConst() {
		if a.C == 1 {
			return True
		}
		return b
	}
	if b.IsConst() {
		if b.C == 1 {
			return True
		}
		return a
	}
	if a == b {
		return a
	}
	return &Term{Op: OpBOr, W: 0, A: a, B: b, size: sz(a, b)}
}

func Ite(c, a, b *Term) *Term {
	if c.IsConst() {
		if c.C == 1 {
			return a
		}
		return b
	}
	if a == b {
		return a
	}
	if a.W != b.W {
		panic("gosym: ite width mismatch")
	}
	if a.W == 0 {
		if a.IsConst() && b.IsConst() {
			if a.C == 1 && b.C == 0 {
				return c
			}
			if a.C == 0 && b.C == 1 {
				return Not(c)
			}
		}
	}
	return &Term{Op: OpIte, W: a.W, X: c, A: a, B: b, size: sz(c, a, b)}
}

// Resize converts a to width w; signed selects sign extension when widening.
func Resize(a *Term, w uint8, signed bool) *Term {
	if a.W == 0 || w == 0 {
		panic("gosym: resize of Bool")
	}
	if a.W == w {
		return a
	}
	if a.IsConst() {
		if w > a.W && signed {
			return Const(w, uint64(signExt(a.C, a.W)))
		}
		return Const(w, a.C)
	}
	if w < a.W {
		// extract of an extension of something of the target width (or narrower)
		if (a.Op == OpZExt || a.Op == OpSExt) && a.A.W == w {
			return a.A
		}
		return &Term{Op: OpExtract, W: w, A: a, size: sz(a)}
	}
	op := OpZExt
	if signed {
		op = OpSExt
	}
	return &Term{Op: op, W: w, A: a, size: sz(a)}
}

func sortOf(w uint8) string {
	if w == 0 {
		return "Bool"
	}
	return fmt.Sprintf("(_ BitVec %d)", w)
}

// SMT renders the term as SMT-LIB2.
func (t *Term) SMT() string {
	if t.str != "" {
		return t.str
	}
	var s string
	switch t.Op {
	case OpConst:
		if t.W == 0 {
			if t.C == 1 {
				s = "true"
			} else {
				s = "false"
			}
		} else if t.W%4 == 0 {
			s = fmt.Sprintf("#x%0*x", int(t.W/4), t.C)
		} else {
			s = fmt.Sprintf("(_ bv%d %d)", t.C, t.W)
		}
	case OpSym:
		s = "|" + t.Name + "|"
	case OpNeg, OpNot, OpBNot:
		s = "(" + opSMT[t.Op] + " " + t.A.SMT() + ")"
	case OpIte:
		s = "(ite " + t.X.SMT() + " " + t.A.SMT() + " " + t.B.SMT() + ")"
	case OpZExt:
		s = fmt.Sprintf("((_ zero_extend %d) %s)", t.W-t.A.W, t.A.SMT())
	case OpSExt:
		s = fmt.Sprintf("((_ sign_extend %d) %s)", t.W-t.A.W, t.A.SMT())
	case OpExtract:
		s = fmt.Sprintf("((_ extract %d 0) %s)", t.W-1, t.A.SMT())
	default:
		s = "(" + opSMT[t.Op] + " " + t.A.SMT() + " " + t.B.SMT() + ")"
	}
	if t.size < 4096 {
		t.str = s
	}
	return s
}

func (t *Term) String() string {
	if t.IsConst() {
		if t.W == 0 {
			return fmt.Sprint(t.C == 1)
		}
		return fmt.Sprint(t.Int())
	}
	return t.SMT()
}

// Syms collects the symbol names occurring in t.
func (t *Term) Syms(into map[string]uint8) {
	if t == nil {
		return
	}
	switch t.Op {
	case OpConst:
		return
	case OpSym:
		into[t.Name] = t.W
		return
	}
	t.A.Syms(into)
	t.B.Syms(into)
	t.X.Syms(into)
}

// Eval evaluates t under a model (missing symbols are 0).
func (t *Term) Eval(m map[string]uint64) uint64 {
	switch t.Op {
	case OpConst:
		return t.C
	case OpSym:
		return m[t.Name] & maskB(t.W)
	case OpNeg:
		return (-t.A.Eval(m)) & mask(t.W)
	case OpNot:
		return (^t.A.Eval(m)) & mask(t.W)
	case OpBNot:
		return 1 - t.A.Eval(m)
	case OpIte:
		if t.X.Eval(m) == 1 {
			return t.A.Eval(m)
		}
		return t.B.Eval(m)
	case OpZExt:
		return t.A.Eval(m)
	case OpSExt:
		return uint64(signExt(t.A.Eval(m), t.A.W)) & mask(t.W)
	case OpExtract:
		return t.A.Eval(m) & mask(t.W)
	case OpBAnd:
		return t.A.Eval(m) & t.B.Eval(m)
	case OpBOr:
		return t.A.Eval(m) | t.B.Eval(m)
	case OpEq, OpSLt, OpSLe, OpULt, OpULe:
		a, b := t.A.Eval(m), t.B.Eval(m)
		if t.A.W == 0 {
			return b2u(a == b)
		}
		sa, sb := signExt(a, t.A.W), signExt(b, t.A.W)
		switch t.Op {
		case OpEq:
			return b2u(a == b)
		case OpSLt:
			return b2u(sa < sb)
		case OpSLe:
			return b2u(sa <= sb)
		case OpULt:
			return b2u(a < b)
		default:
			return b2u(a <= b)
		}
	default:
		a, b := t.A.Eval(m), t.B.Eval(m)
		v, ok := foldBin(t.Op, t.W, a, b)
		if !ok {
			// SMT-LIB semantics of division by zero
			switch t.Op {
			case OpUDiv:
				return mask(t.W)
			case OpSDiv:
				if signExt(a, t.W) < 0 {
					return 1
				}
				return mask(t.W)
			default:
				return a
			}
		}
		return v
	}
}

func maskB(w uint8) uint64 {
	if w == 0 {
		return 1
	}
	return mask(w)
}

func b2u(b bool) uint64 {
	if b {
		return 1
	}
	return 0
}

func joinSMT(ts []*Term) string {
	var sb strings.Builder
	for i, t := range ts {
		if i > 0 {
			sb.WriteByte(' ')
		}
		sb.WriteString(t.SMT())
	}
	return sb.String()
}
