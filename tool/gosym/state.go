package gosym

import (
	"fmt"
	"os"
	"runtime/debug"
	"sort"
	"strings"
	"sync/atomic"

	"golang.org/x/tools/go/ssa"
)

// Decision is one recorded choice at a symbolic branch (Kind 'b') or at a
// concretisation point (Kind 'c': Taken means term == Val, else term != Val).
type Decision struct {
	Kind  byte
	Taken bool
	Val   uint64
}

func (d Decision) String() string {
	if d.Kind == 'b' {
		if d.Taken {
			return "T"
		}
		return "F"
	}
	if d.Taken {
		return fmt.Sprintf("=%d", int64(d.Val))
	}
	return fmt.Sprintf("!%d", int64(d.Val))
}

// pathEnd aborts the current path (engine-level, not visible to modelled recover()).
type pathEnd struct {
	Status string // killed | unwind | unsupported | deadlock | violated | abort
	Msg    string
}

// goPanic is a modelled Go panic travelling up the interpreted stack.
type goPanic struct {
	Val  Iface
	Kind string // explicit | index | nil | slice | assert | div | closed
	Msg  string
}

type Violation struct {
	What   string
	Model  map[string]uint64
	Syms   []string
	Prefix []Decision
	Cond   string
}

type State struct {
	pools     map[*Value][]Value // sync.Pool contents, per pool object
	eng       *Engine
	cfg       *Config
	sol       *Solver
	prefix    []Decision
	pos       int
	decisions []Decision
	forks     [][]Decision
	pc        []*Term
	bind      map[string]*Term
	symOrder  []string
	symW      map[string]uint8
	nameCount map[string]int
	globals   map[*ssa.Global]*Value
	steps     int64
	depth     int
	unwind    int
	covers    map[string]bool
	Output    []string
	viol      []Violation
	unwound   []Violation
	notes     map[string]bool
	fnCount   map[*ssa.Function]int64
	sched     *scheduler
	mapOrder  bool
	faults    map[string]bool
	newDecs   int
	unknowns  int
	fsEvents  []string
	UserData  map[string]interface{}

	lastRecovered    *goPanic
	stubs            map[string]int
	faultHook        func(site string) bool
	templateData     Value
	inited           map[*ssa.Function]bool
	pcSeen           map[string]bool
	speculating      bool
	queryCount       int
	cross            []CrossQuery
	trackFootprint   bool
	footprint        map[string]bool
	faultsOn         bool
	faultsHit        []string
	rangeCount       int
	mapOrderInstance int
	mapSite          string
	curSite          string
	merges           int
}

func (st *State) note(s string) {
	if st.notes == nil {
		st.notes = map[string]bool{}
	}
	st.notes[s] = true
}

// simp resolves a term against equalities pinned on this path.
func (st *State) simp(t *Term) *Term {
	if t == nil || t.IsConst() || len(st.bind) == 0 {
		return t
	}
	return st.subst(t, 0)
}

func (st *State) subst(t *Term, depth int) *Term {
	if t.IsConst() {
		return t
	}
	if t.Op == OpSym {
		if c, ok := st.bind[t.Name]; ok {
			return c
		}
		return t
	}
	if depth > 6 || t.size > 64 {
		return t
	}
	var a, b, x *Term
	ch := false
	if t.A != nil {
		a = st.subst(t.A, depth+1)
		ch = ch || a != t.A
	}
	if t.B != nil {
		b = st.subst(t.B, depth+1)
		ch = ch || b != t.B
	}
	if t.X != nil {
		x = st.subst(t.X, depth+1)
		ch = ch || x != t.X
	}
	if !ch {
		return t
	}
	return rebuild(t, a, b, x)
}

func rebuild(t *Term, a, b, x *Term) *Term {
	switch t.Op {
	case OpNeg, OpNot:
		return Un(t.Op, a)
	case OpBNot:
		return Not(a)
	case OpBAnd:
		return And(a, b)
	case OpBOr:
		return Or(a, b)
	case OpIte:
		return Ite(x, a, b)
	case OpEq, OpSLt, OpSLe, OpULt, OpULe:
		return Cmp(t.Op, a, b)
	case OpZExt:
		return Resize(a, t.W, false)
	case OpSExt:
		return Resize(a, t.W, true)
	case OpExtract:
		return Resize(a, t.W, false)
	default:
		return Bin(t.Op, a, b)
	}
}

func (st *State) fresh(name string, w uint8) *Term {
	k := st.nameCount[name]
	st.nameCount[name] = k + 1
	full := fmt.Sprintf("%s!%d", name, k)
	t := Sym(full, w)
	st.symOrder = append(st.symOrder, full)
	st.symW[full] = w
	st.sol.Send("(declare-const |" + full + "| " + sortOf(w) + ")")
	return t
}

// assume adds c to the path condition without checking it.
func (st *State) assume(c *Term) {
	if c.IsTrue() {
		return
	}
	if c.size > 3000 && os.Getenv("VERIF_DEBUG_BIG") != "" {
		fmt.Fprintf(os.Stderr, "BIG assume size=%d\n%s\n", c.size, debug.Stack())
	}
	key := c.SMT()
	if st.pcSeen == nil {
		st.pcSeen = map[string]bool{}
	}
	if st.pcSeen[key] {
		return
	}
	st.pcSeen[key] = true
	st.pc = append(st.pc, c)
	st.sol.Send("(assert " + key + ")")
	st.learn(c)
}

// learn records sym == const facts for later constant folding.
func (st *State) learn(c *Term) {
	switch c.Op {
	case OpBAnd:
		st.learn(c.A)
		st.learn(c.B)
	case OpEq:
		a, b := c.A, c.B
		if a.IsConst() {
			a, b = b, a
		}
		if a.Op == OpSym && b.IsConst() {
			st.bind[a.Name] = b
		}
	case OpSym:
		if c.W == 0 {
			st.bind[c.Name] = True
		}
	case OpBNot:
		if c.A.Op == OpSym {
			st.bind[c.A.Name] = False
		}
	}
}

func (st *State) end(status, msg string) {
	panic(pathEnd{status, msg})
}

// Branch decides a possibly symbolic condition, forking if both sides are feasible.
func (st *State) Branch(c *Term) bool {
	c = st.simp(c)
	if c.IsConst() {
		return c.C == 1
	}
	if st.speculating {
		panic(specAbort{})
	}
	if st.pos < len(st.prefix) {
		d := st.prefix[st.pos]
		st.pos++
		st.decisions = append(st.decisions, d)
		if d.Kind != 'b' {
			st.end("abort", "decision prefix out of step (engine nondeterminism)")
		}
		if d.Taken {
			st.assume(c)
		} else {
			st.assume(Not(c))
		}
		return d.Taken
	}
	st.pos++
	st.newDecs++
	rT := st.sol.CheckWith(c)
	st.sampleQuery(c, rT)
	feasT := rT != "unsat"
	feasF := true
	if feasT {
		rF := st.sol.CheckWith(Not(c))
		feasF = rF != "unsat"
		if rF == "unknown" {
			st.unknowns++
		}
	}
	if rT == "unknown" {
		st.unknowns++
	}
	switch {
	case feasT && feasF:
		alt := append(append([]Decision(nil), st.decisions...), Decision{Kind: 'b', Taken: false})
		st.forks = append(st.forks, alt)
		st.decisions = append(st.decisions, Decision{Kind: 'b', Taken: true})
		st.assume(c)
		return true
	case feasT:
		st.decisions = append(st.decisions, Decision{Kind: 'b', Taken: true})
		st.assume(c)
		return true
	default:
		st.decisions = append(st.decisions, Decision{Kind: 'b', Taken: false})
		st.assume(Not(c))
		return false
	}
}

// Concretize forces a scalar term to a concrete value (forking over feasible values).
func (st *State) Concretize(t *Term) uint64 {
	for {
		t = st.simp(t)
		if t.IsConst() {
			return t.C
		}
		if t.W == 0 {
			return b2u(st.Branch(t))
		}
		if st.speculating {
			panic(specAbort{})
		}
		if st.pos < len(st.prefix) {
			d := st.prefix[st.pos]
			st.pos++
			st.decisions = append(st.decisions, d)
			if d.Kind != 'c' {
				st.end("abort", "decision prefix out of step (engine nondeterminism)")
			}
			eq := Cmp(OpEq, t, Const(t.W, d.Val))
			if d.Taken {
				st.assume(eq)
				return d.Val
			}
			st.assume(Not(eq))
			continue
		}
		st.pos++
		st.newDecs++
		k := st.fresh("conc", t.W)
		st.assume(Cmp(OpEq, k, t))
		r, m := st.sol.ModelWith(st.symW, []string{k.Name})
		if r != "sat" {
			if r == "unknown" {
				st.unknowns++
				st.end("unknown", "solver unknown while concretising")
			}
			st.end("killed", "infeasible at concretisation")
		}
		v := m[k.Name]
		eq := Cmp(OpEq, t, Const(t.W, v))
		if st.sol.CheckWith(Not(eq)) != "unsat" {
			alt := append(append([]Decision(nil), st.decisions...), Decision{Kind: 'c', Taken: false, Val: v})
			st.forks = append(st.forks, alt)
		}
		st.decisions = append(st.decisions, Decision{Kind: 'c', Taken: true, Val: v})
		st.assume(eq)
		return v
	}
}

func (st *State) ConcInt(t *Term) int {
	return int(signExt(st.Concretize(t), t.W))
}

// Assert checks the property c on the current path for all values of the inputs.
func (st *State) Assert(c *Term, what string) {
	c = st.simp(c)
	if c.IsTrue() {
		return
	}
	r, m := st.sol.ModelWith(st.symW, st.symOrder, Not(c))
	switch r {
	case "sat":
		st.viol = append(st.viol, Violation{
			What: what, Model: m, Syms: append([]string(nil), st.symOrder...),
			Prefix: append([]Decision(nil), st.decisions...), Cond: c.SMT(),
		})
	case "unknown":
		st.unknowns++
		st.note("assertion undecided (solver unknown): " + what)
	}
	if c.IsFalse() {
		st.end("violated", what)
	}
	if st.sol.CheckWith(c) == "unsat" {
		st.end("violated", what)
	}
	st.assume(c)
}

func (st *State) Assume(c *Term) {
	c = st.simp(c)
	if c.IsTrue() {
		return
	}
	if c.IsFalse() {
		st.end("killed", "assume(false)")
	}
	// An assumption is a constraint, not a decision: check it is satisfiable so that
	// vacuous continuations are cut early.
	if st.pos >= len(st.prefix) {
		if st.sol.CheckWith(c) == "unsat" {
			st.end("killed", "assumption infeasible")
		}
	}
	st.assume(c)
}

// PathModel returns a model of the current path condition.
func (st *State) PathModel() (map[string]uint64, bool) {
	r, m := st.sol.ModelWith(st.symW, st.symOrder)
	return m, r == "sat"
}

func (st *State) pcString() string {
	var parts []string
	for _, c := range st.pc {
		s := c.SMT()
		if len(s) > 200 {
			s = s[:200] + "…"
		}
		parts = append(parts, s)
	}
	return strings.Join(parts, " ∧ ")
}

func sortedKeys(m map[string]bool) []string {
	var ks []string
	for k := range m {
		ks = append(ks, k)
	}
	sort.Strings(ks)
	return ks
}

// CrossQuery is a self-contained copy of one feasibility query, for re-deciding with other solvers.
type CrossQuery struct {
	SMT      string
	Expected string
}

// sampleQuery records every cfg.CrossEvery-th decided query as a standalone SMT-LIB script.
func (st *State) sampleQuery(extra *Term, result string) {
	if st.cfg.CrossEvery <= 0 || result == "unknown" {
		return
	}
	if n := atomic.AddInt64(&crossCounter, 1); n%int64(st.cfg.CrossEvery) != 0 || len(st.cross) >= 4 {
		return
	}
	var sb strings.Builder
	syms := map[string]uint8{}
	for _, p := range st.pc {
		p.Syms(syms)
	}
	extra.Syms(syms)
	var names []string
	for n := range syms {
		names = append(names, n)
	}
	sort.Strings(names)
	for _, n := range names {
		sb.WriteString("(declare-const |" + n + "| " + sortOf(syms[n]) + ")\n")
	}
	for _, p := range st.pc {
		sb.WriteString("(assert " + p.SMT() + ")\n")
	}
	sb.WriteString("(assert " + extra.SMT() + ")\n(check-sat)\n")
	st.cross = append(st.cross, CrossQuery{SMT: sb.String(), Expected: result})
}

var crossCounter int64
