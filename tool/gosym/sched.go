package gosym

import (
	"fmt"
	"go/token"
	"go/types"
)

// Coroutine model of goroutines: exactly one interpreted goroutine runs at a time and
// control moves only at channel operations, so a run is a deterministic function of the
// decision prefix.

type coroutine struct {
	id      int
	resume  chan bool
	started bool
	done    bool
	cond    func() bool
	what    string
}

type abortCo struct{}

type scheduler struct {
	all      []*coroutine
	cur      *coroutine
	main     *coroutine
	pending  *pathEnd
	pendAny  interface{}
	deadlock bool
	exited   chan struct{}
}

func (st *State) scheduler() *scheduler {
	if st.sched == nil {
		m := &coroutine{id: 0, resume: make(chan bool), started: true}
		st.sched = &scheduler{all: []*coroutine{m}, cur: m, main: m, exited: make(chan struct{})}
	}
	return st.sched
}

func (s *scheduler) pickRunnable(after *coroutine) *coroutine {
	n := len(s.all)
	for k := 1; k <= n; k++ {
		co := s.all[(after.id+k)%n]
		if co.done {
			continue
		}
		if !co.started || co.cond == nil || co.cond() {
			return co
		}
	}
	return nil
}

func (st *State) spawn(fr *frame, pos token.Pos, fn Value, args []Value) {
	s := st.scheduler()
	co := &coroutine{id: len(s.all), resume: make(chan bool)}
	s.all = append(s.all, co)
	go func() {
		ok := <-co.resume
		co.started = true
		aborted := false
		defer func() {
			r := recover()
			co.done = true
			if aborted {
				s.exited <- struct{}{}
				return
			}
			switch r := r.(type) {
			case nil:
			case abortCo:
				s.exited <- struct{}{}
				return
			case pathEnd:
				s.pending = &r
			case *goPanic:
				s.pending = &pathEnd{"panic", "uncaught panic in goroutine: " + r.Msg}
			default:
				s.pendAny = r
			}
			// hand the baton on
			if s.pending != nil || s.pendAny != nil {
				s.cur = s.main
				s.main.resume <- true
				return
			}
			next := s.pickRunnable(co)
			if next == nil {
				s.deadlock = true
				next = s.main
			}
			s.cur = next
			next.resume <- true
		}()
		if !ok {
			aborted = true
			return
		}
		st.call(nil, pos, fn, args)
	}()
}

// yield parks the current coroutine until cond holds.
func (st *State) yield(cond func() bool, what string) {
	s := st.scheduler()
	me := s.cur
	me.cond, me.what = cond, what
	for !cond() {
		next := s.pickRunnable(me)
		if next == nil || next == me {
			if me == s.main {
				st.end("deadlock", "all goroutines are asleep: "+what)
			}
			s.deadlock = true
			next = s.main
		}
		s.cur = next
		next.resume <- true
		if ok := <-me.resume; !ok {
			panic(abortCo{})
		}
		s.cur = me
		if me == s.main {
			if s.pendAny != nil {
				r := s.pendAny
				s.pendAny = nil
				panic(r)
			}
			if s.pending != nil {
				p := *s.pending
				s.pending = nil
				panic(p)
			}
			if s.deadlock {
				st.end("deadlock", "all goroutines are asleep: "+what)
			}
		}
	}
	me.cond = nil
}

// cleanup aborts every parked coroutine at the end of a path.
func (st *State) cleanupCoroutines() {
	s := st.sched
	if s == nil {
		return
	}
	for _, co := range s.all {
		if co == s.main || co.done {
			continue
		}
		co.resume <- false
		<-s.exited
	}
	st.sched = nil
}

func (st *State) parkedCoroutines() int {
	n := 0
	if st.sched != nil {
		for _, co := range st.sched.all {
			if co != st.sched.main && !co.done {
				n++
			}
		}
	}
	return n
}

func (st *State) chanSend(ch *Chan, v Value) {
	if ch == nil {
		st.yield(func() bool { return false }, "send on nil channel")
	}
	if ch.closed {
		panic(&goPanic{Val: Iface{T: runtimeErrorType, V: "send on closed channel"}, Kind: "closed", Msg: "send on closed channel"})
	}
	ch.buf = append(ch.buf, v)
	if len(ch.buf) > ch.cap {
		st.yield(func() bool { return len(ch.buf) <= ch.cap }, "chan send")
	}
}

func (st *State) chanRecv(ch *Chan, elem types.Type) (Value, bool) {
	if ch == nil {
		st.yield(func() bool { return false }, "receive from nil channel")
	}
	if len(ch.buf) == 0 && !ch.closed {
		st.yield(func() bool { return len(ch.buf) > 0 || ch.closed }, "chan receive")
	}
	if len(ch.buf) > 0 {
		v := ch.buf[0]
		ch.buf = ch.buf[1:]
		return v, true
	}
	return zero(elem), false
}

func (c *coroutine) String() string { return fmt.Sprintf("co%d", c.id) }
