package gosym

import (
	"errors"
	"fmt"
	"go/token"
	"go/types"
	"regexp"
	"strconv"
	"strings"
	"unicode"

	"golang.org/x/tools/go/ssa"
)

var errorStringType = types.NewNamed(types.NewTypeName(token.NoPos, nil, "verif.errorString", nil), types.Typ[types.String], nil)

// Native boxes a host Go value that the interpreted program only passes around.
type Native struct{ V interface{} }

type errMethod struct{}

func (st *State) callBuiltin(caller *frame, fn *ssa.Builtin, args []Value) Value {
	switch fn.Name() {
	case "append":
		if len(args) == 1 {
			return args[0]
		}
		s, _ := args[0].(Slice)
		switch t := args[1].(type) {
		case string, *SymStr:
			for _, b := range strBytes(t) {
				s = append(s, b)
			}
			return s
		case Slice:
			for _, e := range t {
				s = append(s, copyVal(e))
			}
			if s == nil && t != nil {
				s = Slice{}
			}
			return s
		}
		panic(unsupported(fmt.Sprintf("append of %T", args[1])))
	case "copy":
		dst := args[0].(Slice)
		n := 0
		switch src := args[1].(type) {
		case Slice:
			for i := 0; i < len(dst) && i < len(src); i++ {
				dst[i] = copyVal(src[i])
				n++
			}
		case string, *SymStr:
			b := strBytes(src)
			for i := 0; i < len(dst) && i < len(b); i++ {
				dst[i] = b[i]
				n++
			}
		}
		return ConstInt(64, int64(n))
	case "close":
		ch := args[0].(*Chan)
		if ch == nil || ch.closed {
			panic(&goPanic{Val: Iface{T: runtimeErrorType, V: "close of closed/nil channel"}, Kind: "closed", Msg: "close of closed or nil channel"})
		}
		ch.closed = true
		return nil
	case "delete":
		st.mapDelete(args[0].(*Map), args[1])
		return nil
	case "print", "println":
		return nil
	case "len":
		switch x := args[0].(type) {
		case string, *SymStr:
			return ConstInt(64, int64(strLen(x)))
		case Slice:
			return ConstInt(64, int64(len(x)))
		case Array:
			return ConstInt(64, int64(len(x)))
		case *Value:
			if x == nil {
				st.goPanicf("nil", "invalid memory address or nil pointer dereference")
			}
			return ConstInt(64, int64(len((*x).(Array))))
		case *Map:
			return ConstInt(64, int64(x.Len()))
		case *Chan:
			if x == nil {
				return ConstInt(64, 0)
			}
			return ConstInt(64, int64(len(x.buf)))
		case *GV:
			return st.callBuiltin(caller, fn, []Value{x.V[st.forceGV(x)]})
		}
		panic(unsupported(fmt.Sprintf("len of %T", args[0])))
	case "cap":
		switch x := args[0].(type) {
		case Slice:
			return ConstInt(64, int64(cap(x)))
		case Array:
			return ConstInt(64, int64(len(x)))
		case *Chan:
			return ConstInt(64, int64(x.cap))
		}
		panic(unsupported(fmt.Sprintf("cap of %T", args[0])))
	case "recover":
		// caller is the deferred function's frame; its caller is the panicking frame
		if caller != nil && caller.caller != nil && caller.caller.panicking {
			p := caller.caller
			p.panicking = false
			v := p.panicVal.Val
			st.lastRecovered = p.panicVal
			return v
		}
		return Iface{}
	case "ssa:wrapnilchk":
		if p, ok := args[0].(*Value); ok && p == nil {
			st.goPanicf("nil", "value method called using nil pointer")
		}
		return args[0]
	case "min", "max":
		out := args[0].(*Term)
		_, signed, _ := scalarInfo(fn.Type().(*types.Signature).Params().At(0).Type())
		for _, a := range args[1:] {
			b := a.(*Term)
			var lt *Term
			if signed {
				lt = Cmp(OpSLt, b, out)
			} else {
				lt = Cmp(OpULt, b, out)
			}
			if fn.Name() == "max" {
				lt = Not(Or(lt, Cmp(OpEq, b, out)))
			}
			out = Ite(lt, b, out)
		}
		return out
	}
	panic(unsupported("builtin " + fn.Name()))
}

func (st *State) strArg(v Value) Value {
	if gv, ok := v.(*GV); ok {
		return gv.V[st.forceGV(gv)]
	}
	return v
}

func (st *State) concStr(v Value, what string) string {
	v = st.strArg(v)
	switch s := v.(type) {
	case string:
		return s
	case *SymStr:
		if c, ok := s.concrete(); ok {
			return c
		}
		// force every byte
		b := make([]byte, len(s.B))
		for i, t := range s.B {
			b[i] = byte(st.Concretize(t))
		}
		return string(b)
	}
	panic(unsupported(fmt.Sprintf("%s: not a string: %T", what, v)))
}

func (st *State) toNative(v Value, t types.Type) interface{} {
	switch x := v.(type) {
	case *Term:
		if !x.IsConst() {
			st.note("fmt of a symbolic scalar rendered opaquely")
			return "⟦" + x.SMT() + "⟧"
		}
		if x.W == 0 {
			return x.C == 1
		}
		if t != nil {
			if _, signed, ok := scalarInfo(t); ok && !signed {
				if x.W == 8 {
					return uint8(x.C)
				}
				return x.C
			}
		}
		if x.W == 32 {
			return int32(x.Int())
		}
		return int(x.Int())
	case string:
		return x
	case Iface:
		if x.T == nil {
			return nil
		}
		if x.T == errorStringType || x.T == runtimeErrorType {
			return errors.New(st.format(x.V))
		}
		return st.toNative(x.V, x.T)
	case *GV:
		return st.toNative(x.V[st.forceGV(x)], t)
	}
	return st.format(v)
}

func (st *State) sprintf(format string, args Slice) string {
	nat := make([]interface{}, len(args))
	for i, a := range args {
		nat[i] = st.toNative(a, nil)
	}
	return fmt.Sprintf(format, nat...)
}

func (st *State) sprint(args Slice, ln bool) string {
	nat := make([]interface{}, len(args))
	for i, a := range args {
		nat[i] = st.toNative(a, nil)
	}
	if ln {
		return fmt.Sprintln(nat...)
	}
	return fmt.Sprint(nat...)
}

// isFileWriter: the io.Writer holds a file opened through the modelled os.Create / os.OpenFile.
func isFileWriter(w Value) bool {
	if iv, ok := w.(Iface); ok {
		w = iv.V
	}
	p, ok := w.(*Value)
	if !ok || p == nil {
		return false
	}
	n, ok := (*p).(*Native)
	if !ok {
		return false
	}
	s, ok := n.V.(string)
	return ok && strings.HasPrefix(s, "file:")
}

func slArg(v Value) Slice {
	if v == nil {
		return nil
	}
	return v.(Slice)
}

// external models the standard-library (and third-party) callees; anything not listed
// stops the run as unsupported rather than being skipped.
func (st *State) external(caller *frame, fn *ssa.Function, args []Value) Value {
	name := fn.String()
	st.stubs[name]++
	switch name {
	case "fmt.Sprintf":
		return st.sprintf(st.concStr(args[0], name), slArg(args[1]))
	case "fmt.Sprint":
		return st.sprint(slArg(args[0]), false)
	case "fmt.Sprintln":
		return st.sprint(slArg(args[0]), true)
	case "fmt.Errorf":
		return Iface{T: errorStringType, V: st.sprintf(st.concStr(args[0], name), slArg(args[1]))}
	case "errors.New":
		return Iface{T: errorStringType, V: args[0]}
	case "fmt.Printf":
		st.Output = append(st.Output, st.sprintf(st.concStr(args[0], name), slArg(args[1])))
		return Tuple{ConstInt(64, 0), Iface{}}
	case "fmt.Println":
		st.Output = append(st.Output, st.sprint(slArg(args[0]), true))
		return Tuple{ConstInt(64, 0), Iface{}}
	case "fmt.Print":
		st.Output = append(st.Output, st.sprint(slArg(args[0]), false))
		return Tuple{ConstInt(64, 0), Iface{}}
	case "fmt.Fprintf", "fmt.Fprint", "fmt.Fprintln", "io.WriteString":
		var text string
		switch name {
		case "fmt.Fprintf":
			text = st.sprintf(st.concStr(args[1], name), slArg(args[2]))
		case "fmt.Fprint":
			text = st.sprint(slArg(args[1]), false)
		case "fmt.Fprintln":
			text = st.sprint(slArg(args[1]), true)
		default:
			text = st.concStr(args[1], name)
		}
		if isFileWriter(args[0]) {
			// a write to the output file, like (*os.File).WriteString
			st.fsEvents = append(st.fsEvents, "write:"+text)
		} else {
			st.Output = append(st.Output, text)
		}
		return Tuple{ConstInt(64, int64(len(text))), Iface{}}
	case "strings.HasPrefix":
		s, p := strBytes(st.strArg(args[0])), strBytes(st.strArg(args[1]))
		if len(p) > len(s) {
			return False
		}
		return st.eqBytes(s[:len(p)], p)
	case "strings.HasSuffix":
		s, p := strBytes(st.strArg(args[0])), strBytes(st.strArg(args[1]))
		if len(p) > len(s) {
			return False
		}
		return st.eqBytes(s[len(s)-len(p):], p)
	case "strings.ContainsRune":
		s := strBytes(st.strArg(args[0]))
		r := args[1].(*Term)
		out := False
		for _, b := range s {
			if b.IsConst() && b.C >= 0x80 {
				panic(unsupported("ContainsRune on non-ASCII set"))
			}
			out = Or(out, Cmp(OpEq, Resize(b, 32, false), r))
		}
		return out
	case "strings.ReplaceAll":
		return strings.ReplaceAll(st.concStr(args[0], name), st.concStr(args[1], name), st.concStr(args[2], name))
	case "strings.Contains":
		return BoolT(strings.Contains(st.concStr(args[0], name), st.concStr(args[1], name)))
	case "strings.Join":
		var parts []string
		for _, e := range slArg(args[0]) {
			parts = append(parts, st.concStr(e, name))
		}
		return strings.Join(parts, st.concStr(args[1], name))
	case "strings.ToLower":
		return strings.ToLower(st.concStr(args[0], name))
	case "strings.ToUpper":
		return strings.ToUpper(st.concStr(args[0], name))
	case "strings.EqualFold":
		return BoolT(strings.EqualFold(st.concStr(args[0], name), st.concStr(args[1], name)))
	case "strings.Compare":
		return ConstInt(64, int64(strings.Compare(st.concStr(args[0], name), st.concStr(args[1], name))))
	case "strings.Index":
		return ConstInt(64, int64(strings.Index(st.concStr(args[0], name), st.concStr(args[1], name))))
	case "strings.LastIndex":
		// last position where the (concrete) separator starts: one branch per candidate position, from the end
		sep := st.concStr(args[1], name)
		bs := strBytes(st.strArg(args[0]))
		if len(sep) == 0 {
			return ConstInt(64, int64(len(bs)))
		}
		for i := len(bs) - len(sep); i >= 0; i-- {
			cond := BoolT(true)
			for k := 0; k < len(sep); k++ {
				cond = And(cond, Cmp(OpEq, bs[i+k], Const(8, uint64(sep[k]))))
			}
			if st.Branch(cond) {
				return ConstInt(64, int64(i))
			}
		}
		return ConstInt(64, -1)
	case "strings.IndexByte":
		// first position holding the byte: one branch per symbolic byte on the way
		bs := strBytes(st.strArg(args[0]))
		c := args[1].(*Term)
		for i, b := range bs {
			if st.Branch(Cmp(OpEq, Resize(b, c.W, false), c)) {
				return ConstInt(64, int64(i))
			}
		}
		return ConstInt(64, -1)
	case "strings.TrimLeft":
		return strings.TrimLeft(st.concStr(args[0], name), st.concStr(args[1], name))
	case "strings.TrimPrefix":
		return strings.TrimPrefix(st.concStr(args[0], name), st.concStr(args[1], name))
	case "strings.TrimSuffix":
		return strings.TrimSuffix(st.concStr(args[0], name), st.concStr(args[1], name))
	case "strings.Split":
		parts := strings.Split(st.concStr(args[0], name), st.concStr(args[1], name))
		out := make(Slice, len(parts))
		for i, p := range parts {
			out[i] = p
		}
		return out
	case "strings.Repeat":
		return strings.Repeat(st.concStr(args[0], name), st.ConcInt(args[1].(*Term)))
	case "strings.TrimSpace":
		return strings.TrimSpace(st.concStr(args[0], name))
	case "strconv.Itoa":
		t := args[0].(*Term)
		return strconv.Itoa(st.ConcInt(t))
	case "strconv.ParseInt":
		n, err := strconv.ParseInt(st.concStr(args[0], name), st.ConcInt(args[1].(*Term)), st.ConcInt(args[2].(*Term)))
		if err != nil {
			return Tuple{ConstInt(64, n), Iface{T: errorStringType, V: err.Error()}}
		}
		return Tuple{ConstInt(64, n), Iface{}}
	case "strconv.Atoi":
		s := st.concStr(args[0], name)
		n, err := strconv.Atoi(s)
		if err != nil {
			return Tuple{ConstInt(64, 0), Iface{T: errorStringType, V: err.Error()}}
		}
		return Tuple{ConstInt(64, int64(n)), Iface{}}
	case "unicode.IsLetter":
		r := args[0].(*Term)
		if r.IsConst() {
			return BoolT(unicode.IsLetter(rune(r.Int())))
		}
		st.requireASCIIRune(r)
		l := Bin(OpOr, r, Const(32, 0x20))
		return And(Cmp(OpULe, Const(32, 'a'), l), Cmp(OpULe, l, Const(32, 'z')))
	case "unicode.IsDigit":
		r := args[0].(*Term)
		if r.IsConst() {
			return BoolT(unicode.IsDigit(rune(r.Int())))
		}
		st.requireASCIIRune(r)
		return And(Cmp(OpULe, Const(32, '0'), r), Cmp(OpULe, r, Const(32, '9')))
	case "unicode.IsSpace":
		r := args[0].(*Term)
		if r.IsConst() {
			return BoolT(unicode.IsSpace(rune(r.Int())))
		}
		st.requireASCIIRune(r)
		out := False
		for _, c := range []uint64{' ', '\t', '\n', '\v', '\f', '\r'} {
			out = Or(out, Cmp(OpEq, r, Const(32, c)))
		}
		return out
	case "unicode/utf8.DecodeRuneInString":
		s := st.strArg(args[0])
		if cs, ok := s.(string); ok {
			r, w := decodeRune(cs)
			return Tuple{ConstInt(32, int64(r)), ConstInt(64, int64(w))}
		}
		b := s.(*SymStr).B
		if len(b) == 0 {
			return Tuple{ConstInt(32, 0xFFFD), ConstInt(64, 0)}
		}
		if b[0].IsConst() && b[0].C >= 0x80 {
			// a concrete non-ASCII lead byte: decode natively from the leading concrete bytes
			r, w := decodeRune(constPrefix(b, 4))
			return Tuple{ConstInt(32, int64(r)), ConstInt(64, int64(w))}
		}
		st.requireASCII(b[0])
		return Tuple{Resize(b[0], 32, false), ConstInt(64, 1)}
	case "sort.SliceStable", "sort.Slice":
		x := args[0].(Iface).V.(Slice)
		less := args[1]
		for i := 1; i < len(x); i++ {
			for j := i; j > 0; j-- {
				r := st.call(caller, token.NoPos, less, []Value{ConstInt(64, int64(j)), ConstInt(64, int64(j-1))}).(*Term)
				if !st.Branch(r) {
					break
				}
				x[j], x[j-1] = x[j-1], x[j]
			}
		}
		return nil
	case "sort.Ints":
		x := args[0].(Slice)
		for i := 1; i < len(x); i++ {
			for j := i; j > 0; j-- {
				if !st.Branch(Cmp(OpSLt, x[j].(*Term), x[j-1].(*Term))) {
					break
				}
				x[j], x[j-1] = x[j-1], x[j]
			}
		}
		return nil
	case "sort.Strings":
		x := args[0].(Slice)
		for i := 1; i < len(x); i++ {
			for j := i; j > 0; j-- {
				if !(st.concStr(x[j], name) < st.concStr(x[j-1], name)) {
					break
				}
				x[j], x[j-1] = x[j-1], x[j]
			}
		}
		return nil
	case "(*bytes.Buffer).WriteString", "(*bytes.Buffer).WriteByte", "(*bytes.Buffer).WriteRune", "(*bytes.Buffer).Write":
		// write-only use of a bytes.Buffer: field 0 (buf) holds everything written since the last Reset
		b := (*args[0].(*Value)).(Struct)
		buf, _ := b[0].(Slice)
		n := 0
		switch name {
		case "(*bytes.Buffer).WriteString":
			for _, t := range strBytes(st.strArg(args[1])) {
				buf = append(buf, t)
				n++
			}
		case "(*bytes.Buffer).Write":
			for _, t := range args[1].(Slice) {
				buf = append(buf, t)
				n++
			}
		case "(*bytes.Buffer).WriteByte":
			buf = append(buf, args[1].(*Term))
			n = 1
		default:
			for _, t := range strBytes(st.conv(types.Typ[types.String], types.Typ[types.Rune], args[1])) {
				buf = append(buf, t)
				n++
			}
		}
		b[0] = buf
		if name == "(*bytes.Buffer).WriteByte" {
			return Iface{}
		}
		return Tuple{ConstInt(64, int64(n)), Iface{}}
	case "(*bytes.Buffer).String":
		b := (*args[0].(*Value)).(Struct)
		buf, _ := b[0].(Slice)
		bs := make([]*Term, len(buf))
		for i, e := range buf {
			bs[i] = e.(*Term)
		}
		return mkStr(bs)
	case "(*bytes.Buffer).Len":
		b := (*args[0].(*Value)).(Struct)
		buf, _ := b[0].(Slice)
		return ConstInt(64, int64(len(buf)))
	case "(*bytes.Buffer).Reset":
		b := (*args[0].(*Value)).(Struct)
		b[0] = Slice(nil)
		return nil
	case "(*sync.Pool).Get":
		// a pool hands back what was put into it (most recent first), else a new object
		pp := args[0].(*Value)
		if items := st.pools[pp]; len(items) > 0 {
			v := items[len(items)-1]
			st.pools[pp] = items[:len(items)-1]
			return v
		}
		ps := (*pp).(Struct)
		newFn := ps[len(ps)-1]
		if c, ok := newFn.(*Closure); ok && c != nil {
			return st.call(caller, token.NoPos, newFn, nil)
		}
		if newFn == nil {
			return Iface{}
		}
		return st.call(caller, token.NoPos, newFn, nil)
	case "(*sync.Pool).Put":
		pp := args[0].(*Value)
		if st.pools == nil {
			st.pools = map[*Value][]Value{}
		}
		st.pools[pp] = append(st.pools[pp], args[1])
		return nil
	case "(*strings.Builder).WriteString", "(*strings.Builder).WriteByte", "(*strings.Builder).WriteRune", "(*strings.Builder).Write":
		b := (*args[0].(*Value)).(Struct)
		buf, _ := b[1].(Slice)
		n := 0
		switch name {
		case "(*strings.Builder).WriteString":
			for _, t := range strBytes(st.strArg(args[1])) {
				buf = append(buf, t)
				n++
			}
		case "(*strings.Builder).Write":
			for _, t := range args[1].(Slice) {
				buf = append(buf, t)
				n++
			}
		case "(*strings.Builder).WriteByte":
			buf = append(buf, args[1].(*Term))
			n = 1
		default:
			for _, t := range strBytes(st.conv(types.Typ[types.String], types.Typ[types.Rune], args[1])) {
				buf = append(buf, t)
				n++
			}
		}
		b[1] = buf
		if name == "(*strings.Builder).WriteByte" {
			return Iface{}
		}
		return Tuple{ConstInt(64, int64(n)), Iface{}}
	case "(*strings.Builder).String":
		b := (*args[0].(*Value)).(Struct)
		buf, _ := b[1].(Slice)
		bs := make([]*Term, len(buf))
		for i, e := range buf {
			bs[i] = e.(*Term)
		}
		return mkStr(bs)
	case "(*strings.Builder).Len":
		b := (*args[0].(*Value)).(Struct)
		buf, _ := b[1].(Slice)
		return ConstInt(64, int64(len(buf)))
	case "(*strings.Builder).Reset":
		b := (*args[0].(*Value)).(Struct)
		b[1] = Slice(nil)
		return nil
	case "(*strings.Builder).Grow":
		return nil
	case "regexp.MustCompile":
		return &Native{regexp.MustCompile(st.concStr(args[0], name))}
	case "(*regexp.Regexp).FindAllStringSubmatch":
		re := args[0].(*Native).V.(*regexp.Regexp)
		ms := re.FindAllStringSubmatch(st.concStr(args[1], name), int(st.ConcInt(args[2].(*Term))))
		if ms == nil {
			return Slice(nil)
		}
		out := make(Slice, len(ms))
		for i, m := range ms {
			row := make(Slice, len(m))
			for k, g := range m {
				row[k] = g
			}
			out[i] = row
		}
		return out
	case "(*regexp.Regexp).FindAllString":
		re := args[0].(*Native).V.(*regexp.Regexp)
		ms := re.FindAllString(st.concStr(args[1], name), int(st.ConcInt(args[2].(*Term))))
		if ms == nil {
			return Slice(nil)
		}
		out := make(Slice, len(ms))
		for i, m := range ms {
			out[i] = m
		}
		return out
	case "(*regexp.Regexp).MatchString":
		re := args[0].(*Native).V.(*regexp.Regexp)
		return BoolT(re.MatchString(st.concStr(args[1], name)))
	case "(*regexp.Regexp).ReplaceAllStringFunc":
		re := args[0].(*Native).V.(*regexp.Regexp)
		src := st.concStr(args[1], name)
		return re.ReplaceAllStringFunc(src, func(m string) string {
			return st.concStr(st.call(caller, token.NoPos, args[2], []Value{m}), name)
		})
	case "os.Create":
		st.fsEvents = append(st.fsEvents, "create:"+st.concStr(args[0], name))
		if st.faultHook != nil && st.faultHook("os.Create") {
			return Tuple{(*Value)(nil), Iface{T: errorStringType, V: "create failed (injected)"}}
		}
		cell := new(Value)
		*cell = &Native{"file:" + st.concStr(args[0], name)}
		return Tuple{cell, Iface{}}
	case "os.OpenFile":
		fname := st.concStr(args[0], name)
		flags := st.ConcInt(args[1].(*Term))
		switch {
		case flags&0x200 != 0: // O_TRUNC: same effect on an existing file as os.Create
			st.fsEvents = append(st.fsEvents, "create:"+fname)
		case flags&0x400 != 0:
			st.fsEvents = append(st.fsEvents, "open-append:"+fname)
		default:
			st.fsEvents = append(st.fsEvents, "open-notrunc:"+fname)
		}
		cell := new(Value)
		*cell = &Native{"file:" + fname}
		return Tuple{cell, Iface{}}
	case "(*os.File).WriteString":
		st.fsEvents = append(st.fsEvents, "write:"+st.concStr(args[1], name))
		return Tuple{ConstInt(64, int64(strLen(args[1]))), Iface{}}
	case "(*os.File).Close":
		st.fsEvents = append(st.fsEvents, "close")
		return Iface{}
	case "(*os.File).Write":
		st.fsEvents = append(st.fsEvents, "write:"+st.concStr(st.conv(types.Typ[types.String], types.NewSlice(types.Typ[types.Byte]), args[1]), name))
		return Tuple{ConstInt(64, int64(len(args[1].(Slice)))), Iface{}}
	case "(*os.File).Truncate":
		st.fsEvents = append(st.fsEvents, "truncate")
		return Iface{}
	case "(*os.File).Sync":
		return Iface{}
	case "os.Remove":
		st.fsEvents = append(st.fsEvents, "remove:"+st.concStr(args[0], name))
		return Iface{}
	case "os.Rename":
		st.fsEvents = append(st.fsEvents, "rename:"+st.concStr(args[0], name)+"->"+st.concStr(args[1], name))
		return Iface{}
	case "text/template.New":
		return &Native{"template"}
	case "(*text/template.Template).Parse":
		st.fsEvents = append(st.fsEvents, "template.parse")
		return Tuple{args[0], Iface{}}
	case "(*text/template.Template).Execute":
		st.fsEvents = append(st.fsEvents, "template.execute")
		st.templateData = args[2]
		return Iface{}
	}
	panic(unsupported("external function " + name))
}

func (st *State) requireASCIIRune(r *Term) {
	if !st.Branch(Cmp(OpULt, r, Const(r.W, 0x80))) {
		st.end("killed", "non-ASCII rune: outside the claim")
	}
}

// intrinsic intercepts the harness's verif* functions.
func (st *State) intrinsic(caller *frame, fn *ssa.Function, args []Value) (Value, bool) {
	n := fn.Name()
	if !strings.HasPrefix(n, "verif") || fn.Signature.Recv() != nil {
		return nil, false
	}
	cs := func(i int) string { return st.concStr(args[i], n) }
	switch n {
	case "verifInt":
		return st.fresh(cs(0), 64), true
	case "verifIntIn":
		x := st.fresh(cs(0), 64)
		lo, hi := args[1].(*Term), args[2].(*Term)
		st.Assume(And(Cmp(OpSLe, lo, x), Cmp(OpSLe, x, hi)))
		return x, true
	case "verifPick":
		x := st.fresh(cs(0), 64)
		st.Assume(Cmp(OpULt, x, args[1].(*Term)))
		return x, true
	case "verifByte":
		return st.fresh(cs(0), 8), true
	case "verifBool":
		return st.fresh(cs(0), 0), true
	case "verifFault":
		return st.fresh("fault:"+cs(0), 0), true
	case "verifString":
		k := st.ConcInt(args[1].(*Term))
		bs := make([]*Term, k)
		for i := range bs {
			bs[i] = st.fresh(cs(0), 8)
		}
		return mkStr(bs), true
	case "verifAssume":
		st.Assume(args[0].(*Term))
		return nil, true
	case "verifAssert":
		st.Assert(args[0].(*Term), cs(1))
		return nil, true
	case "verifCover":
		st.covers[cs(0)] = true
		return nil, true
	case "verifUnwind":
		st.unwind = st.ConcInt(args[0].(*Term))
		return nil, true
	case "verifConc":
		t := args[0].(*Term)
		return Const(t.W, st.Concretize(t)), true
	case "verifMapOrder":
		st.mapOrder = st.Branch(args[0].(*Term))
		return nil, true
	case "verifClassify":
		iv := args[0].(Iface)
		switch {
		case iv.T == nil:
			return Tuple{ConstInt(64, 0), ""}, true
		case iv.T == runtimeErrorType:
			return Tuple{ConstInt(64, 2), st.format(iv.V)}, true
		case iv.T == errorStringType:
			return Tuple{ConstInt(64, 3), st.format(iv.V)}, true
		}
		if b, ok := iv.T.Underlying().(*types.Basic); ok && b.Info()&types.IsString != 0 {
			return Tuple{ConstInt(64, 1), iv.V}, true
		}
		return Tuple{ConstInt(64, 4), st.format(iv)}, true
	case "verifOutput":
		out := make(Slice, len(st.Output))
		for i, s := range st.Output {
			out[i] = s
		}
		return out, true
	case "verifResetOutput":
		st.Output = nil
		return nil, true
	case "verifEvents":
		out := make(Slice, len(st.fsEvents))
		for i, s := range st.fsEvents {
			out[i] = s
		}
		return out, true
	case "verifMapOrderInstance":
		st.mapOrderInstance = st.ConcInt(args[0].(*Term))
		st.rangeCount = 0
		st.mapSite = ""
		return nil, true
	case "verifRangeCount":
		return ConstInt(64, int64(st.rangeCount)), true
	case "verifMapSite":
		return st.mapSite, true
	case "verifFragments":
		// all string fields of the struct handed to template.Execute, plus everything written with WriteString
		out := ""
		td := st.templateData
		if iv, ok := td.(Iface); ok {
			td = iv.V
		}
		if p, ok := td.(*Value); ok && p != nil {
			if s, ok := (*p).(Struct); ok {
				for i, f := range s {
					switch x := f.(type) {
					case string:
						out += fmt.Sprintf("\x00field%d\x00", i) + x
					case *Term:
						out += fmt.Sprintf("\x00field%d\x00", i) + st.format(x)
					}
				}
			}
		}
		for _, e := range st.fsEvents {
			if strings.HasPrefix(e, "write:") {
				out += "\x00w\x00" + e[6:]
			}
		}
		st.templateData = nil
		st.fsEvents = nil
		return out, true
	case "verifFaults":
		st.faultsOn = st.Branch(args[0].(*Term))
		return nil, true
	case "verifFaultHit":
		if len(st.faultsHit) == 0 {
			return "", true
		}
		return st.faultsHit[len(st.faultsHit)-1], true
	case "verifFootprintStart":
		st.trackFootprint = true
		st.footprint = map[string]bool{}
		return nil, true
	case "verifFootprint":
		st.trackFootprint = false
		out := Slice{}
		for _, k := range sortedKeys(st.footprint) {
			out = append(out, k)
		}
		return out, true
	case "verifIsReplay":
		return False, true
	case "verifNote":
		st.note(cs(0))
		return nil, true
	}
	if h := st.eng.Intrinsics[n]; h != nil {
		return h(st, caller, args), true
	}
	return nil, false
}

// constPrefix returns the leading concrete bytes of a byte-term vector (at most n).
func constPrefix(b []*Term, n int) string {
	var out []byte
	for i := 0; i < len(b) && i < n && b[i].IsConst(); i++ {
		out = append(out, byte(b[i].C))
	}
	return string(out)
}
