package gosym

import (
	"go/token"

	"golang.org/x/tools/go/ssa"
)

// Region merging ("if-conversion"): when an If has a symbolic condition, the acyclic
// region of side-effect-free single-predecessor blocks below it is executed on all its
// branches under guards; the exits are grouped by target block and phi values merged with
// ite. A pure diamond (&&, ||, a switch that only picks a constant) then costs no fork,
// and a chain of tests with a common target (case a, b, c:) costs one.

type specAbort struct{}

type specExit struct {
	to    *ssa.BasicBlock
	from  *ssa.BasicBlock
	guard *Term
}

const maxSpecBlocks = 12

var pureExternals = map[string]bool{
	"strings.HasPrefix": true, "strings.HasSuffix": true, "strings.ContainsRune": true,
	"unicode.IsLetter": true, "unicode.IsDigit": true, "unicode.IsSpace": true,
}

func pureInstr(in ssa.Instruction) bool {
	switch v := in.(type) {
	case *ssa.BinOp:
		return v.Op != token.QUO && v.Op != token.REM
	case *ssa.UnOp:
		return v.Op != token.ARROW
	case *ssa.FieldAddr, *ssa.Field, *ssa.IndexAddr, *ssa.Index, *ssa.Convert, *ssa.ChangeType,
		*ssa.ChangeInterface, *ssa.MakeInterface, *ssa.Extract, *ssa.Phi, *ssa.DebugRef, *ssa.Slice:
		return true
	case *ssa.Call:
		if f, ok := v.Call.Value.(*ssa.Function); ok && v.Call.Method == nil {
			return pureExternals[f.String()]
		}
		if b, ok := v.Call.Value.(*ssa.Builtin); ok {
			return b.Name() == "len" || b.Name() == "cap"
		}
	}
	return false
}

// tryMerge attempts to merge the region below an If with symbolic condition c.
// On success it has set fr.block / fr.prev (and phi values) and returns true.
func (fr *frame) tryMerge(in *ssa.If, c *Term) bool {
	st := fr.st
	if !st.cfg.Merge || st.speculating {
		return false
	}
	b := in.Block()
	var exits []specExit
	blocks := 0
	ok := func() (ok bool) {
		st.speculating = true
		defer func() {
			st.speculating = false
			if r := recover(); r != nil {
				switch r.(type) {
				case specAbort, *goPanic:
					ok = false
				default:
					panic(r)
				}
			}
		}()
		var walk func(blk, from *ssa.BasicBlock, g *Term)
		walk = func(blk, from *ssa.BasicBlock, g *Term) {
			if g.IsFalse() {
				return
			}
			if len(blk.Preds) != 1 {
				exits = append(exits, specExit{blk, from, g})
				return
			}
			blocks++
			if blocks > maxSpecBlocks {
				panic(specAbort{})
			}
			for _, ins := range blk.Instrs[:len(blk.Instrs)-1] {
				if !pureInstr(ins) {
					panic(specAbort{})
				}
			}
			saved := fr.prev
			fr.prev = from
			for _, ins := range blk.Instrs[:len(blk.Instrs)-1] {
				if _, isDbg := ins.(*ssa.DebugRef); isDbg {
					continue
				}
				if fr.visit(ins) != kNext {
					panic(specAbort{})
				}
			}
			fr.prev = saved
			switch t := blk.Instrs[len(blk.Instrs)-1].(type) {
			case *ssa.Jump:
				walk(blk.Succs[0], blk, g)
			case *ssa.If:
				cc := st.simp(fr.get(t.Cond).(*Term))
				walk(blk.Succs[0], blk, And(g, cc))
				walk(blk.Succs[1], blk, And(g, Not(cc)))
			default:
				panic(specAbort{})
			}
		}
		walk(b.Succs[0], b, c)
		walk(b.Succs[1], b, Not(c))
		return true
	}()
	if !ok || len(exits) == 0 || blocks == 0 {
		return false
	}
	// group exits by target, in first-seen order
	var targets []*ssa.BasicBlock
	byT := map[*ssa.BasicBlock][]specExit{}
	for _, e := range exits {
		if _, seen := byT[e.to]; !seen {
			targets = append(targets, e.to)
		}
		byT[e.to] = append(byT[e.to], e)
	}
	if len(targets) > 3 {
		return false
	}
	// choose the target: forks only between different targets
	chosen := targets[len(targets)-1]
	for _, t := range targets[:len(targets)-1] {
		g := False
		for _, e := range byT[t] {
			g = Or(g, e.guard)
		}
		if st.Branch(g) {
			chosen = t
			break
		}
	}
	es := byT[chosen]
	// phi values of the chosen target
	type pv struct {
		phi *ssa.Phi
		val Value
	}
	var vals []pv
	for _, ins := range chosen.Instrs {
		phi, isPhi := ins.(*ssa.Phi)
		if !isPhi {
			break
		}
		var out Value
		for i := len(es) - 1; i >= 0; i-- {
			e := es[i]
			var ev Value
			for k, pred := range chosen.Preds {
				if pred == e.from {
					ev = fr.get(phi.Edges[k])
					break
				}
			}
			if i == len(es)-1 {
				out = ev
			} else {
				out = st.iteVal(st.simp(e.guard), ev, out)
			}
		}
		vals = append(vals, pv{phi, out})
	}
	for _, v := range vals {
		fr.set(v.phi, v.val)
	}
	fr.prev = es[0].from
	fr.block = chosen
	fr.skipPhis = true
	st.merges++
	return true
}
