package gosym

import (
	"fmt"
	"go/token"
	"go/types"
	"os"
	"strings"
	"sync"

	"golang.org/x/tools/go/ssa"
)

type fnInfo struct {
	idx map[ssa.Value]int
	n   int
}

var fnInfos sync.Map // *ssa.Function -> *fnInfo

func infoOf(fn *ssa.Function) *fnInfo {
	if v, ok := fnInfos.Load(fn); ok {
		return v.(*fnInfo)
	}
	fi := &fnInfo{idx: map[ssa.Value]int{}}
	add := func(v ssa.Value) {
		fi.idx[v] = fi.n
		fi.n++
	}
	for _, p := range fn.Params {
		add(p)
	}
	for _, fv := range fn.FreeVars {
		add(fv)
	}
	for _, b := range fn.Blocks {
		for _, in := range b.Instrs {
			if v, ok := in.(ssa.Value); ok {
				add(v)
			}
		}
	}
	v, _ := fnInfos.LoadOrStore(fn, fi)
	return v.(*fnInfo)
}

type deferred struct {
	fn   Value
	args []Value
	pos  token.Pos
}

type frame struct {
	st        *State
	fn        *ssa.Function
	info      *fnInfo
	caller    *frame
	env       []Value
	block     *ssa.BasicBlock
	prev      *ssa.BasicBlock
	defers    []deferred
	result    Value
	panicking bool
	panicVal  *goPanic
	visits    map[int]int
	recovered bool
	skipPhis  bool
}

func (fr *frame) get(v ssa.Value) Value {
	switch v := v.(type) {
	case *ssa.Const:
		return fr.st.constValue(v)
	case *ssa.Global:
		return fr.st.globalAddr(v)
	case *ssa.Function:
		return v
	case *ssa.Builtin:
		return v
	}
	i, ok := fr.info.idx[v]
	if !ok {
		panic(fmt.Sprintf("gosym: no slot for %T %s in %s", v, v.Name(), fr.fn))
	}
	r := fr.env[i]
	if t, ok := r.(*Term); ok && !t.IsConst() && len(fr.st.bind) != 0 {
		return fr.st.simp(t)
	}
	return r
}

func (fr *frame) set(v ssa.Value, x Value) {
	fr.env[fr.info.idx[v]] = x
}

func (st *State) globalAddr(g *ssa.Global) *Value {
	if p, ok := st.globals[g]; ok {
		return p
	}
	cell := new(Value)
	*cell = zero(g.Type().(*types.Pointer).Elem())
	st.globals[g] = cell
	return cell
}

func (st *State) constValue(c *ssa.Const) Value {
	if c.Value == nil {
		t := c.Type()
		if b, ok := t.Underlying().(*types.Basic); ok && b.Kind() == types.UntypedNil {
			return Iface{}
		}
		return zero(t)
	}
	t := c.Type().Underlying()
	if b, ok := t.(*types.Basic); ok {
		if b.Info()&types.IsString != 0 {
			return constString(c)
		}
		w, signed, ok := intWidth(b)
		if !ok {
			panic(unsupported("constant of type " + b.String()))
		}
		if w == 0 {
			return BoolT(constBool(c))
		}
		if signed {
			return ConstInt(w, c.Int64())
		}
		return Const(w, c.Uint64())
	}
	panic(unsupported("constant of type " + c.Type().String()))
}

func (st *State) isInterp(fn *ssa.Function) bool {
	if len(fn.Blocks) == 0 {
		return false
	}
	if fn.Pkg == nil {
		// synthetic wrapper / bound method / instantiation
		if o := fn.Origin(); o != nil && o.Pkg != nil {
			return st.eng.interpPkg(o.Pkg.Pkg.Path())
		}
		return true
	}
	return st.eng.interpPkg(fn.Pkg.Pkg.Path())
}

// call invokes a function value.
func (st *State) call(caller *frame, pos token.Pos, fv Value, args []Value) Value {
	switch f := fv.(type) {
	case *ssa.Function:
		if f == nil {
			st.goPanicf("nil", "call of nil function")
		}
		return st.callFn(caller, pos, f, args, nil)
	case *Closure:
		return st.callFn(caller, pos, f.Fn, args, f.Env)
	case *ssa.Builtin:
		return st.callBuiltin(caller, f, args)
	case *GV:
		i := st.forceGV(f)
		return st.call(caller, pos, f.V[i], args)
	case errMethod:
		return args[0]
	}
	panic(unsupported(fmt.Sprintf("call of %T", fv)))
}

func (st *State) callFn(caller *frame, pos token.Pos, fn *ssa.Function, args []Value, env []Value) Value {
	if v, ok := st.intrinsic(caller, fn, args); ok {
		return v
	}
	if fn.Name() == "init" && fn.Pkg != nil && fn.Signature.Recv() == nil && !st.eng.interpPkg(fn.Pkg.Pkg.Path()) {
		return nil
	}
	if st.faultsOn && st.eng.FaultSites[fn.String()] {
		name := fn.String()
		if st.Branch(st.fresh("fault:"+name, 0)) {
			st.faultsHit = append(st.faultsHit, name)
			panic(&goPanic{Val: Iface{T: types.Typ[types.String], V: "injected failure in " + name}, Kind: "explicit", Msg: "injected failure in " + name})
		}
	}
	if !st.isInterp(fn) {
		return st.external(caller, fn, args)
	}
	st.depth++
	if st.depth > st.cfg.MaxDepth {
		st.end("unwind", "call depth bound exceeded in "+fn.String())
	}
	defer func() { st.depth-- }()
	fr := &frame{st: st, fn: fn, info: infoOf(fn), caller: caller}
	fr.env = make([]Value, fr.info.n)
	for i, p := range fn.Params {
		fr.env[fr.info.idx[p]] = args[i]
	}
	for i, fvv := range fn.FreeVars {
		fr.env[fr.info.idx[fvv]] = env[i]
	}
	fr.block = fn.Blocks[0]
	for fr.block != nil {
		fr.run()
	}
	if fr.panicking {
		panic(fr.panicVal)
	}
	if fr.recovered && fr.result == nil {
		fr.result = zero(fn.Signature.Results())
		if fn.Signature.Results().Len() == 0 {
			fr.result = nil
		}
	}
	return fr.result
}

func (fr *frame) run() {
	defer func() {
		if fr.block == nil {
			return // normal return
		}
		r := recover()
		gp, ok := r.(*goPanic)
		if !ok {
			panic(r) // engine-level abort: not visible to the interpreted program
		}
		fr.panicking = true
		fr.panicVal = gp
		fr.runDefers()
		fr.block = fr.fn.Recover
		if !fr.panicking {
			fr.recovered = true
		} else {
			fr.block = nil
		}
	}()
	st := fr.st
	for {
		b := fr.block
		if len(b.Preds) > 1 || b.Index == 0 {
			if fr.visits == nil {
				fr.visits = map[int]int{}
			}
			fr.visits[b.Index]++
			lim := st.unwind
			if lim == 0 {
				lim = st.cfg.MaxBlockVisits
			}
			if fr.visits[b.Index] > lim {
				st.end("unwind", fmt.Sprintf("loop bound %d exceeded in %s block %d (%s)", lim, fr.fn, b.Index, st.eng.Prog.Fset.Position(firstPos(b))))
			}
		}
		st.fnCount[fr.fn] += int64(len(b.Instrs))
		st.steps += int64(len(b.Instrs))
		if st.steps > st.cfg.MaxSteps {
			st.end("unwind", fmt.Sprintf("step budget %d exceeded in %s", st.cfg.MaxSteps, fr.fn))
		}
		skip := fr.skipPhis
		fr.skipPhis = false
	instrs:
		for _, in := range b.Instrs {
			if skip {
				if _, isPhi := in.(*ssa.Phi); isPhi {
					continue
				}
				skip = false
			}
			switch fr.visit(in) {
			case kReturn:
				return
			case kJump:
				break instrs
			}
		}
	}
}

func firstPos(b *ssa.BasicBlock) token.Pos {
	for _, in := range b.Instrs {
		if in.Pos().IsValid() {
			return in.Pos()
		}
	}
	return token.NoPos
}

func (fr *frame) runDefers() {
	for i := len(fr.defers) - 1; i >= 0; i-- {
		d := fr.defers[i]
		fr.defers = fr.defers[:i]
		fr.st.call(fr, d.pos, d.fn, d.args)
	}
	fr.defers = nil
}

type cont int

const (
	kNext cont = iota
	kReturn
	kJump
)

func (st *State) goPanicf(kind, format string, a ...interface{}) {
	msg := fmt.Sprintf(format, a...)
	panic(&goPanic{Val: Iface{T: runtimeErrorType, V: "runtime error: " + msg}, Kind: kind, Msg: msg})
}

var runtimeErrorType = types.NewNamed(types.NewTypeName(token.NoPos, nil, "runtime.Error", nil), types.Typ[types.String], nil)

func (fr *frame) visit(instr ssa.Instruction) cont {
	st := fr.st
	switch in := instr.(type) {
	case *ssa.DebugRef:
	case *ssa.UnOp:
		fr.set(in, st.unop(fr, in))
	case *ssa.BinOp:
		fr.set(in, st.binop(in.Op, in.X.Type(), fr.get(in.X), fr.get(in.Y)))
	case *ssa.Call:
		fn, args := fr.prepareCall(&in.Call)
		fr.set(in, st.call(fr, in.Pos(), fn, args))
	case *ssa.ChangeInterface:
		fr.set(in, fr.get(in.X))
	case *ssa.ChangeType:
		fr.set(in, fr.get(in.X))
	case *ssa.Convert:
		fr.set(in, st.conv(in.Type(), in.X.Type(), fr.get(in.X)))
	case *ssa.MakeInterface:
		fr.set(in, Iface{T: in.X.Type(), V: fr.get(in.X)})
	case *ssa.Extract:
		fr.set(in, fr.get(in.Tuple).(Tuple)[in.Index])
	case *ssa.Slice:
		fr.set(in, st.sliceOp(fr, in))
	case *ssa.Return:
		switch len(in.Results) {
		case 0:
		case 1:
			fr.result = fr.get(in.Results[0])
		default:
			var res Tuple
			for _, r := range in.Results {
				res = append(res, fr.get(r))
			}
			fr.result = res
		}
		fr.block = nil
		return kReturn
	case *ssa.RunDefers:
		fr.runDefers()
	case *ssa.Panic:
		v := fr.get(in.X).(Iface)
		msg := ""
		if s, ok := v.V.(string); ok {
			msg = s
		} else if v.T != nil {
			msg = fmt.Sprintf("%v", st.format(v))
		}
		panic(&goPanic{Val: v, Kind: "explicit", Msg: msg})
	case *ssa.Send:
		st.chanSend(fr.get(in.Chan).(*Chan), copyVal(fr.get(in.X)))
	case *ssa.Store:
		if st.trackFootprint {
			if g := addrRootGlobal(in.Addr, 0); g != "" {
				st.footprint[g] = true
			}
		}
		st.storeThrough(fr.get(in.Addr), fr.get(in.Val))
	case *ssa.If:
		c := fr.get(in.Cond).(*Term)
		if !c.IsConst() && fr.tryMerge(in, c) {
			return kJump
		}
		if c.size > 3000 && os.Getenv("VERIF_DEBUG_BIG") != "" {
			sy := map[string]uint8{}
			c.Syms(sy)
			fmt.Fprintf(os.Stderr, "BIG cond size=%d in %s at %s syms=%v pc=%s\n", c.size, fr.fn, posStr(st, in.Cond.Pos()), sy, st.pcString())
		}
		succ := 1
		if st.Branch(c) {
			succ = 0
		}
		fr.prev, fr.block = fr.block, fr.block.Succs[succ]
		return kJump
	case *ssa.Jump:
		fr.prev, fr.block = fr.block, fr.block.Succs[0]
		return kJump
	case *ssa.Defer:
		fn, args := fr.prepareCall(&in.Call)
		fr.defers = append(fr.defers, deferred{fn: fn, args: args, pos: in.Pos()})
	case *ssa.Go:
		fn, args := fr.prepareCall(&in.Call)
		st.spawn(fr, in.Pos(), fn, args)
	case *ssa.MakeChan:
		n := st.ConcInt(fr.get(in.Size).(*Term))
		fr.set(in, &Chan{cap: n})
	case *ssa.Alloc:
		cell := new(Value)
		*cell = zero(in.Type().(*types.Pointer).Elem())
		fr.set(in, cell)
	case *ssa.MakeSlice:
		n := st.ConcInt(fr.get(in.Len).(*Term))
		c := st.ConcInt(fr.get(in.Cap).(*Term))
		if n < 0 || c < n || c > 1<<24 {
			st.goPanicf("slice", "makeslice: len out of range")
		}
		et := in.Type().Underlying().(*types.Slice).Elem()
		s := make(Slice, n, c)
		for i := range s {
			s[i] = zero(et)
		}
		fr.set(in, s)
	case *ssa.MakeMap:
		fr.set(in, newMap())
	case *ssa.Range:
		st.curSite = fr.fn.String() + "@" + posStr(st, in.Pos())
		fr.set(in, st.rangeIter(fr.get(in.X), in.X.Type()))
	case *ssa.Next:
		fr.set(in, st.nextIter(fr.get(in.Iter), in))
	case *ssa.FieldAddr:
		fr.set(in, st.fieldAddr(fr.get(in.X), in.Field))
	case *ssa.Field:
		fr.set(in, st.fieldOf(fr.get(in.X), in.Field))
	case *ssa.IndexAddr:
		fr.set(in, st.indexAddr(fr.get(in.X), fr.get(in.Index).(*Term), in.X.Type()))
	case *ssa.Index:
		fr.set(in, st.indexVal(fr.get(in.X), fr.get(in.Index).(*Term)))
	case *ssa.Lookup:
		fr.set(in, st.lookup(in, fr.get(in.X), fr.get(in.Index)))
	case *ssa.MapUpdate:
		if st.trackFootprint {
			if g := addrRootGlobal(in.Map, 0); g != "" {
				st.footprint[g] = true
			}
		}
		m := fr.get(in.Map).(*Map)
		if m == nil {
			panic(&goPanic{Val: Iface{T: runtimeErrorType, V: "assignment to entry in nil map"}, Kind: "nil", Msg: "assignment to entry in nil map"})
		}
		st.mapSet(m, fr.get(in.Key), copyVal(fr.get(in.Value)))
	case *ssa.TypeAssert:
		fr.set(in, st.typeAssert(in, fr.get(in.X)))
	case *ssa.MakeClosure:
		var bindings []Value
		for _, b := range in.Bindings {
			bindings = append(bindings, fr.get(b))
		}
		fr.set(in, &Closure{Fn: in.Fn.(*ssa.Function), Env: bindings})
	case *ssa.Phi:
		for i, pred := range in.Block().Preds {
			if fr.prev == pred {
				fr.set(in, fr.get(in.Edges[i]))
				break
			}
		}
	case *ssa.Select:
		panic(unsupported("select at " + st.eng.Prog.Fset.Position(in.Pos()).String()))
	default:
		panic(unsupported(fmt.Sprintf("instruction %T at %s", instr, st.eng.Prog.Fset.Position(instr.Pos()))))
	}
	return kNext
}

func (fr *frame) prepareCall(call *ssa.CallCommon) (Value, []Value) {
	st := fr.st
	v := fr.get(call.Value)
	var fn Value
	var args []Value
	if call.Method == nil {
		fn = v
	} else {
		recv, ok := v.(Iface)
		if gv, isGV := v.(*GV); isGV {
			recv, ok = gv.V[st.forceGV(gv)].(Iface)
		}
		if !ok {
			panic(unsupported(fmt.Sprintf("invoke on %T", v)))
		}
		if recv.T == nil {
			st.goPanicf("nil", "invalid memory address or nil pointer dereference (method %s on nil interface)", call.Method.Name())
		}
		if (recv.T == errorStringType || recv.T == runtimeErrorType) && call.Method.Name() == "Error" {
			return errMethod{}, []Value{recv.V}
		}
		f := st.eng.Prog.LookupMethod(recv.T, call.Method.Pkg(), call.Method.Name())
		if f == nil {
			panic(unsupported(fmt.Sprintf("method %s not found on %s", call.Method.Name(), recv.T)))
		}
		fn = f
		args = append(args, recv.V)
	}
	for _, a := range call.Args {
		args = append(args, fr.get(a))
	}
	return fn, args
}

func (st *State) storeThrough(addr Value, v Value) {
	switch p := addr.(type) {
	case *Value:
		if p == nil {
			st.goPanicf("nil", "invalid memory address or nil pointer dereference")
		}
		storeVal(p, v)
	case *GV:
		// store to each target under its guard
		for i, tv := range p.V {
			tp := tv.(*Value)
			if tp == nil {
				if st.Branch(p.G[i]) {
					st.goPanicf("nil", "invalid memory address or nil pointer dereference")
				}
				continue
			}
			storeVal(tp, st.iteVal(p.G[i], v, *tp))
		}
	default:
		panic(unsupported(fmt.Sprintf("store through %T", addr)))
	}
}

func (st *State) loadFrom(addr Value) Value {
	switch p := addr.(type) {
	case *Value:
		if p == nil {
			st.goPanicf("nil", "invalid memory address or nil pointer dereference")
		}
		return copyVal(*p)
	case *GV:
		var out Value
		first := true
		for i := len(p.V) - 1; i >= 0; i-- {
			tp := p.V[i].(*Value)
			if tp == nil {
				if st.Branch(p.G[i]) {
					st.goPanicf("nil", "invalid memory address or nil pointer dereference")
				}
				continue
			}
			if first {
				out = copyVal(*tp)
				first = false
			} else {
				out = st.iteVal(p.G[i], copyVal(*tp), out)
			}
		}
		if first {
			st.goPanicf("nil", "invalid memory address or nil pointer dereference")
		}
		return out
	}
	panic(unsupported(fmt.Sprintf("load through %T", addr)))
}

func (st *State) fieldAddr(x Value, field int) Value {
	switch p := x.(type) {
	case *Value:
		if p == nil {
			st.goPanicf("nil", "invalid memory address or nil pointer dereference")
		}
		return &(*p).(Struct)[field]
	case *GV:
		out := &GV{G: p.G, V: make([]Value, len(p.V))}
		for i, tv := range p.V {
			tp := tv.(*Value)
			if tp == nil {
				out.V[i] = (*Value)(nil)
			} else {
				out.V[i] = &(*tp).(Struct)[field]
			}
		}
		return out
	}
	panic(unsupported(fmt.Sprintf("FieldAddr on %T", x)))
}

func (st *State) fieldOf(x Value, field int) Value {
	switch s := x.(type) {
	case Struct:
		return s[field]
	case *GV:
		out := &GV{G: s.G, V: make([]Value, len(s.V))}
		for i, v := range s.V {
			out.V[i] = v.(Struct)[field]
		}
		return st.normGV(out)
	}
	panic(unsupported(fmt.Sprintf("Field on %T", x)))
}

// boundsCheck panics (as Go would) if idx is outside [0,n); both outcomes are explored.
func (st *State) boundsCheck(idx *Term, n int, kind string) {
	idx64 := idx
	inRange := Cmp(OpULt, idx64, Const(idx.W, uint64(n)))
	if !st.Branch(inRange) {
		if idx.IsConst() {
			st.goPanicf(kind, "index out of range [%d] with length %d", idx.Int(), n)
		}
		st.goPanicf(kind, "index out of range [symbolic] with length %d", n)
	}
}

func (st *State) indexAddr(x Value, idx *Term, xt types.Type) Value {
	var elems []Value
	switch a := x.(type) {
	case Slice:
		elems = a
	case *Value:
		if a == nil {
			st.goPanicf("nil", "invalid memory address or nil pointer dereference")
		}
		elems = (*a).(Array)
	case *GV:
		i := st.forceGV(a)
		return st.indexAddr(a.V[i], idx, xt)
	default:
		panic(unsupported(fmt.Sprintf("IndexAddr on %T", x)))
	}
	st.boundsCheck(idx, len(elems), "index")
	if idx.IsConst() {
		return &elems[idx.Int()]
	}
	// Symbolic in-range index: a guarded pointer over the feasible cells.
	if len(elems) <= st.cfg.MaxSymIndex {
		gv := &GV{}
		for i := range elems {
			g := Cmp(OpEq, idx, Const(idx.W, uint64(i)))
			gv.G = append(gv.G, g)
			gv.V = append(gv.V, &elems[i])
		}
		return gv
	}
	i := st.ConcInt(idx)
	return &elems[i]
}

func (st *State) indexVal(x Value, idx *Term) Value {
	switch a := x.(type) {
	case Array:
		st.boundsCheck(idx, len(a), "index")
		if idx.IsConst() {
			return a[idx.Int()]
		}
		return st.selectVal(idx, []Value(a))
	case string, *SymStr:
		b := strBytes(a)
		st.boundsCheck(idx, len(b), "index")
		if idx.IsConst() {
			return b[idx.Int()]
		}
		vs := make([]Value, len(b))
		for i := range b {
			vs[i] = b[i]
		}
		return st.selectVal(idx, vs)
	}
	panic(unsupported(fmt.Sprintf("Index on %T", x)))
}

// selectVal reads vs[idx] for an in-range symbolic idx.
func (st *State) selectVal(idx *Term, vs []Value) Value {
	if len(vs) == 0 {
		st.end("killed", "index into empty")
	}
	out := vs[len(vs)-1]
	for i := len(vs) - 2; i >= 0; i-- {
		out = st.iteVal(Cmp(OpEq, idx, Const(idx.W, uint64(i))), vs[i], out)
	}
	return out
}

func (st *State) unop(fr *frame, in *ssa.UnOp) Value {
	x := fr.get(in.X)
	switch in.Op {
	case token.MUL:
		return st.loadFrom(x)
	case token.ARROW:
		v, ok := st.chanRecv(x.(*Chan), in.X.Type().Underlying().(*types.Chan).Elem())
		if in.CommaOk {
			return Tuple{v, BoolT(ok)}
		}
		return v
	case token.SUB:
		return Un(OpNeg, x.(*Term))
	case token.XOR:
		return Un(OpNot, x.(*Term))
	case token.NOT:
		return Not(x.(*Term))
	}
	panic(unsupported("unary " + in.Op.String()))
}

func (st *State) typeAssert(in *ssa.TypeAssert, x Value) Value {
	if gv, ok := x.(*GV); ok {
		x = gv.V[st.forceGV(gv)]
	}
	iv := x.(Iface)
	ok := false
	if iv.T != nil {
		if it, isI := in.AssertedType.Underlying().(*types.Interface); isI {
			ok = types.Implements(iv.T, it)
			if !ok && (iv.T == errorStringType || iv.T == runtimeErrorType) {
				ok = it.NumMethods() == 0 || (it.NumMethods() == 1 && it.Method(0).Name() == "Error")
			}
		} else {
			ok = types.Identical(iv.T, in.AssertedType)
		}
	}
	var res Value
	if ok {
		if _, isI := in.AssertedType.Underlying().(*types.Interface); isI {
			res = iv
		} else {
			res = iv.V
		}
	}
	if in.CommaOk {
		if !ok {
			res = zero(in.AssertedType)
		}
		return Tuple{res, BoolT(ok)}
	}
	if !ok {
		have := "nil"
		if iv.T != nil {
			have = iv.T.String()
		}
		panic(&goPanic{Val: Iface{T: runtimeErrorType, V: "interface conversion: interface is " + have + ", not " + in.AssertedType.String()}, Kind: "assert", Msg: "interface conversion: " + have + " is not " + in.AssertedType.String()})
	}
	return res
}

func (st *State) sliceOp(fr *frame, in *ssa.Slice) Value {
	x := fr.get(in.X)
	if gv, ok := x.(*GV); ok {
		x = gv.V[st.forceGV(gv)]
	}
	geti := func(v ssa.Value, def int) int {
		if v == nil {
			return def
		}
		t := fr.get(v).(*Term)
		if !t.IsConst() {
			// keep out-of-range as a distinct outcome before pinning
			return st.ConcInt(t)
		}
		return int(t.Int())
	}
	switch a := x.(type) {
	case string, *SymStr:
		b := strBytes(a)
		lo := geti(in.Low, 0)
		hi := geti(in.High, len(b))
		if lo < 0 || hi < lo || hi > len(b) {
			st.goPanicf("slice", "slice bounds out of range [%d:%d] with length %d", lo, hi, len(b))
		}
		if s, ok := a.(string); ok {
			return s[lo:hi]
		}
		return mkStr(b[lo:hi])
	case Slice:
		lo := geti(in.Low, 0)
		hi := geti(in.High, len(a))
		mx := geti(in.Max, cap(a))
		if lo < 0 || hi < lo || mx < hi || mx > cap(a) {
			st.goPanicf("slice", "slice bounds out of range [%d:%d:%d] with capacity %d", lo, hi, mx, cap(a))
		}
		if a == nil {
			return Slice(nil)
		}
		return a[lo:hi:mx]
	case *Value:
		if a == nil {
			st.goPanicf("nil", "invalid memory address or nil pointer dereference")
		}
		arr := (*a).(Array)
		lo := geti(in.Low, 0)
		hi := geti(in.High, len(arr))
		mx := geti(in.Max, len(arr))
		if lo < 0 || hi < lo || mx < hi || mx > len(arr) {
			st.goPanicf("slice", "slice bounds out of range [%d:%d:%d] with capacity %d", lo, hi, mx, len(arr))
		}
		return Slice(arr[lo:hi:mx])
	}
	panic(unsupported(fmt.Sprintf("slice of %T", x)))
}

func (st *State) lookup(in *ssa.Lookup, x Value, key Value) Value {
	switch m := x.(type) {
	case string, *SymStr:
		return st.indexVal(m, key.(*Term))
	case *Map:
		v, ok := st.mapGet(m, key)
		if !ok {
			v = zero(in.X.Type().Underlying().(*types.Map).Elem())
		} else {
			v = copyVal(v)
		}
		if in.CommaOk {
			return Tuple{v, BoolT(ok)}
		}
		return v
	case *GV:
		return st.lookup(in, m.V[st.forceGV(m)], key)
	}
	panic(unsupported(fmt.Sprintf("lookup in %T", x)))
}

// ---- maps ----

func (st *State) mapFind(m *Map, key Value) int {
	if m == nil {
		return -1
	}
	if gv, ok := key.(*GV); ok {
		key = gv.V[st.forceGV(gv)]
	}
	if t, ok := key.(*Term); ok {
		key = st.simp(t)
	}
	h, hashable := hashKey(key)
	if hashable && !m.symKeys {
		if i, ok := m.idx[h]; ok {
			return i
		}
		return -1
	}
	for i := range m.keys {
		if !m.live[i] {
			continue
		}
		if st.Branch(st.equals(key, m.keys[i])) {
			return i
		}
	}
	return -1
}

func (st *State) mapGet(m *Map, key Value) (Value, bool) {
	i := st.mapFind(m, key)
	if i < 0 {
		return nil, false
	}
	return m.vals[i], true
}

func (st *State) mapSet(m *Map, key Value, val Value) {
	if gv, ok := key.(*GV); ok {
		key = gv.V[st.forceGV(gv)]
	}
	if t, ok := key.(*Term); ok {
		key = st.simp(t)
	}
	i := st.mapFind(m, key)
	if i >= 0 {
		m.vals[i] = val
		return
	}
	h, hashable := hashKey(key)
	if hashable {
		m.idx[h] = len(m.keys)
	} else {
		m.symKeys = true
	}
	m.keys = append(m.keys, copyVal(key))
	m.vals = append(m.vals, val)
	m.live = append(m.live, true)
	m.n++
}

func (st *State) mapDelete(m *Map, key Value) {
	i := st.mapFind(m, key)
	if i < 0 {
		return
	}
	m.live[i] = false
	m.n--
	if h, ok := hashKey(m.keys[i]); ok {
		delete(m.idx, h)
	}
}

type mapIter struct {
	free    int
	m       *Map
	pos     int
	visited []bool
	sym     bool
}

type strIter struct {
	s   Value
	pos int
}

func (st *State) rangeIter(x Value, t types.Type) Value {
	if gv, ok := x.(*GV); ok {
		x = gv.V[st.forceGV(gv)]
	}
	switch v := x.(type) {
	case *Map:
		it := &mapIter{m: v}
		if v != nil && v.n > 1 {
			idx := st.rangeCount
			st.rangeCount++
			if st.mapOrder || idx == st.mapOrderInstance {
				it.sym = true
				it.visited = make([]bool, len(v.keys))
				it.free = v.n
				if v.n > 4 {
					it.free = 2
				}
				st.mapSite = st.curSite
			}
		}
		return it
	case string, *SymStr:
		return &strIter{s: v}
	}
	panic(unsupported(fmt.Sprintf("range over %T", x)))
}

func (st *State) nextIter(itv Value, in *ssa.Next) Value {
	switch it := itv.(type) {
	case *mapIter:
		if it.m == nil {
			return Tuple{False, nil, nil}
		}
		if it.sym {
			// the order of a Go map range is arbitrary: pick any unvisited live key
			var cand []int
			for i := range it.visited {
				if i < len(it.m.live) && it.m.live[i] && !it.visited[i] {
					cand = append(cand, i)
				}
			}
			if len(cand) == 0 {
				return Tuple{False, nil, nil}
			}
			pick := cand[0]
			if len(cand) > 1 && it.free > 0 {
				it.free--
				c := st.fresh("maporder", 8)
				st.assume(Cmp(OpULt, c, Const(8, uint64(len(cand)))))
				pick = cand[int(st.Concretize(c))]
			}
			it.visited[pick] = true
			return Tuple{True, copyVal(it.m.keys[pick]), copyVal(it.m.vals[pick])}
		}
		for it.pos < len(it.m.keys) {
			i := it.pos
			it.pos++
			if it.m.live[i] {
				return Tuple{True, copyVal(it.m.keys[i]), copyVal(it.m.vals[i])}
			}
		}
		return Tuple{False, nil, nil}
	case *strIter:
		n := strLen(it.s)
		if it.pos >= n {
			return Tuple{False, Const(64, 0), Const(32, 0)}
		}
		idx := it.pos
		if s, ok := it.s.(string); ok {
			r, w := decodeRune(s[it.pos:])
			it.pos += w
			return Tuple{True, ConstInt(64, int64(idx)), ConstInt(32, int64(r))}
		}
		b := it.s.(*SymStr).B[it.pos]
		if b.IsConst() && b.C >= 0x80 {
			r, w := decodeRune(constPrefix(it.s.(*SymStr).B[it.pos:], 4))
			it.pos += w
			return Tuple{True, ConstInt(64, int64(idx)), ConstInt(32, int64(r))}
		}
		st.requireASCII(b)
		it.pos++
		return Tuple{True, ConstInt(64, int64(idx)), Resize(b, 32, false)}
	}
	panic(unsupported(fmt.Sprintf("next on %T", itv)))
}

// requireASCII: symbolic text is claimed for ASCII only; anything else ends the path as unsupported.
func (st *State) requireASCII(b *Term) {
	if b.IsConst() {
		if b.C >= 0x80 {
			panic(unsupported("non-ASCII byte in symbolic string"))
		}
		return
	}
	if !st.Branch(Cmp(OpULt, b, Const(b.W, 0x80))) {
		st.end("killed", "non-ASCII byte: outside the claim")
	}
}

func posStr(st *State, p token.Pos) string {
	s := st.eng.Prog.Fset.Position(p).String()
	if i := strings.LastIndex(s, "/"); i >= 0 {
		return s[i+1:]
	}
	return s
}

// addrRootGlobal follows an address (or a reference value) back through field/index/slice
// steps; if it is rooted in a package-level variable - directly, or through a pointer, slice
// or map loaded from one - the variable's name is returned.
func addrRootGlobal(v ssa.Value, depth int) string {
	if depth > 12 {
		return ""
	}
	switch x := v.(type) {
	case *ssa.Global:
		return x.Pkg.Pkg.Path() + "." + x.Name()
	case *ssa.FieldAddr:
		return addrRootGlobal(x.X, depth+1)
	case *ssa.IndexAddr:
		return addrRootGlobal(x.X, depth+1)
	case *ssa.Slice:
		return addrRootGlobal(x.X, depth+1)
	case *ssa.ChangeType:
		return addrRootGlobal(x.X, depth+1)
	case *ssa.UnOp:
		if x.Op == token.MUL { // a pointer / slice / map loaded from memory
			return addrRootGlobal(x.X, depth+1)
		}
	case *ssa.Phi:
		for _, e := range x.Edges {
			if g := addrRootGlobal(e, depth+1); g != "" {
				return g
			}
		}
	}
	return ""
}
