package main

import (
	"fmt"
	"os"

	"verif/tool/corpus"
	"verif/tool/tsmini"
)

func main() {
	if len(os.Args) > 2 && os.Args[1] == "text" {
		for _, s := range corpus.Fixed() {
			if s.Name == os.Args[2] {
				fmt.Print(s.TSText())
			}
		}
		return
	}
	b, _ := os.ReadFile(os.Args[1])
	p, err := tsmini.Parse(string(b))
	if err != nil {
		fmt.Println("ERR", err)
		os.Exit(1)
	}
	fmt.Println("parsed", len(p.Body), "top-level statements;", len(p.TypeSpans), "type annotations")
	if len(os.Args) > 2 {
		os.WriteFile(os.Args[2], []byte(p.StripTypes()), 0o644)
	}
}
