package main

import (
	"fmt"
	"golang.org/x/tools/go/ssa"
)

func main() { fmt.Println(ssa.SanityCheckFunctions) }
