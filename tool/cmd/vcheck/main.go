package main

import (
	"flag"
	"fmt"
	"os"
	"sort"
	"strconv"
	"strings"

	"verif/tool/checks"
	"verif/tool/gosym"
)

func main() {
	if len(os.Args) < 2 {
		fmt.Fprintln(os.Stderr, "usage: vcheck run <id> [--tier quick|thorough] | replay <path> | sym ...")
		os.Exit(2)
	}
	switch os.Args[1] {
	case "sym":
		os.Exit(symCmd(os.Args[2:]))
	case "run":
		os.Exit(checks.RunCmd(os.Args[2:]))
	case "replay":
		os.Exit(checks.ReplayCmd(os.Args[2:]))
	default:
		fmt.Fprintln(os.Stderr, "unknown command", os.Args[1])
		os.Exit(2)
	}
}

// symCmd: ad-hoc exploration of one harness entry (development aid).
func symCmd(argv []string) int {
	fs := flag.NewFlagSet("sym", flag.ExitOnError)
	pkg := fs.String("pkg", "Utils", "repo package directory")
	entry := fs.String("entry", "", "harness entry function")
	argS := fs.String("args", "", "comma-separated int arguments")
	workers := fs.Int("workers", 8, "")
	maxPaths := fs.Int("maxpaths", 100000, "")
	log := fs.String("smtlog", "", "")
	solver := fs.String("solver", "z3", "")
	merge := fs.Bool("merge", false, "")
	fs.Parse(argv)
	eng, err := checks.LoadRepo(strings.Split(*pkg, ",")...)
	if err != nil {
		fmt.Println("INCONCLUSIVE", err)
		return 2
	}
	fmt.Printf("loaded in %v\n", eng.LoadTime)
	var args []int
	if *argS != "" {
		for _, a := range strings.Split(*argS, ",") {
			n, _ := strconv.Atoi(a)
			args = append(args, n)
		}
	}
	first := strings.Split(*pkg, ",")[0]
	fn := eng.Func(checks.RepoModule+"/"+first, *entry)
	if fn == nil {
		fmt.Println("no such entry", *entry)
		return 2
	}
	eng.Cfg.Workers = *workers
	eng.Cfg.MaxPaths = *maxPaths
	eng.Cfg.Solver = *solver
	eng.Cfg.Merge = *merge
	_ = log
	rep := eng.Explore(fn, checks.Ints(args...), nil, nil)
	printReport(rep)
	return 0
}

func printReport(rep *gosym.Report) {
	fmt.Printf("entry %s: paths=%d decisions=%d steps=%d status=%v wall=%v solver(sat=%d unsat=%d unk=%d err=%d time=%v)\n",
		rep.Entry, rep.Paths, rep.Decisions, rep.Steps, rep.Status, rep.Wall, rep.SolverSat, rep.SolverUnsat, rep.SolverUnk, rep.SolverErr, rep.SolverTime)
	fmt.Println("covers:", rep.Covers)
	var fns []string
	for f, c := range rep.Funcs {
		fns = append(fns, fmt.Sprintf("%s:%d", f, c))
	}
	sort.Strings(fns)
	fmt.Println("funcs:", fns)
	fmt.Println("stubs:", rep.Stubs)
	for _, p := range rep.Problems {
		fmt.Println("PROBLEM:", p)
	}
	for n := range rep.Notes {
		fmt.Println("note:", n)
	}
	for i, v := range rep.Violations {
		if i >= 5 {
			fmt.Printf("... %d more violations\n", len(rep.Violations)-5)
			break
		}
		fmt.Printf("VIOLATION %s\n  model:", v.What)
		for _, s := range v.Syms {
			fmt.Printf(" %s=%d", s, int64(v.Model[s]))
		}
		fmt.Println()
	}
	for _, s := range rep.Samples {
		fmt.Printf("sample: %s %v pc=%s\n", s.Decisions, s.Model, s.PC)
	}
}
