package checks

import (
	"sync"

	"verif/tool/corpus"
)

func init() { register("C04", C04) }

func exprCorpus(c *Ctx) []*corpus.Spec {
	var out []*corpus.Spec
	for _, s := range corpus.Fixed() {
		if s.HasTag("expr") {
			out = append(out, s)
		}
	}
	if c.Thorough() {
		out = append(out, corpus.ExprFamily()...)
	}
	return out
}

func C04(c *Ctx) {
	c.Level = "model_checking"
	c.Explanation = "C04: (U) one two-candidate table cell goes through the real CheckAndResolveConflict/ResolveConflict/UseDefaultResolveConflict with symbolic candidate kind, order, precedence levels and associativities, asserted against the statement's resolution table; (G) the parsers emitted for operator grammars are executed symbolically over N token codes and compared with a precedence-climbing reference parser (verdict, value as a term, error position)."
	// U: the resolution kernel
	eng, err := LoadRepo("LALR")
	if err != nil {
		c.Inconclusive("%v", err)
		return
	}
	c.Harnesses = append(c.Harnesses, "harness/LALR/zz_verif_resolve.go:VerifResolveCell", "harness/gen/ref.go.txt:VerifExpr")
	c.RunSym(SymJob{Name: "resolve cell", Eng: eng, PkgPath: RepoModule + "/LALR", Entry: "VerifResolveCell",
		Replay: ReplaySpec{Kind: "repo", PkgDirs: []string{"LALR"}},
		Need:   []string{"shift/reduce", "reduce/reduce", "equal-left", "equal-right", "equal-nonassoc", "sr-default", "rr-default", "rr-both-prec", "bystander"}})
	c.MarkDistinct("resolve-cell")
	c.Harnesses = append(c.Harnesses, "harness/LALR/zz_verif_resolve.go:VerifResolveCell3")
	c.RunSym(SymJob{Name: "resolve cell, three candidates", Eng: eng, PkgPath: RepoModule + "/LALR", Entry: "VerifResolveCell3",
		Replay: ReplaySpec{Kind: "repo", PkgDirs: []string{"LALR"}},
		Need:   []string{"three-first-rule", "three-shift", "three-open"}})
	c.Bound("U: every cell with a shift and two reductions in each of the six candidate orders, same ranges; decided where one candidate beats both others pairwise (otherwise outside the claim)")
	c.Bound("U: every pair (shift/reduce or reduce/reduce, either order) with precedence levels in {-1,1,2,3} and associativity in {left,right,nonassoc} for the token and both rules")
	c.Assumptions = append(c.Assumptions, "representation invariant: symbols of one precedence level share one associativity; a symbol without precedence has the default NONE")

	// G: operator grammars
	y, err := c.BuildYGen()
	if err != nil {
		c.Inconclusive("%v", err)
		return
	}
	specs := exprCorpus(c)
	variants := []string{"go", "go-u"}
	if c.Thorough() {
		variants = GoVariants
	}
	g, err := c.Generate(y, specs, variants, nil)
	if err != nil {
		c.Inconclusive("%v", err)
		return
	}
	specs = g.Specs
	N := 5
	if c.Thorough() {
		N = 6
	}
	c.Bound("G: all token strings of length <= %d over arbitrary int64 codes for %d operator grammars x %d variants", N, len(specs), len(variants))
	c.Outside = append(c.Outside, "cells with three or more candidates", "reduce/reduce between two rules that both carry precedence", "expressions longer than N tokens", "TypeScript variant")
	var wg sync.WaitGroup
	sem := make(chan struct{}, 4)
	for _, s := range specs {
		for _, v := range variants {
			s, v := s, v
			wg.Add(1)
			sem <- struct{}{}
			go func() {
				defer wg.Done()
				defer func() { <-sem }()
				job := c.GenJob(g, s, v, "VerifExpr", []int{N}, "C04")
				job.Need = []string{"accept", "reject"}
				c.RunSym(job)
				c.MarkDistinct(s.Name + "/" + v)
			}()
		}
	}
	wg.Wait()
	c.Programs = len(specs)
	// every two-way conflict cell of grammars with precedence declarations (fixed + random)
	rspecs := corpus.Fixed()
	nr := 25
	if c.Thorough() {
		nr = 120
	}
	rspecs = append(rspecs, corpus.RandomRich(c.Seed, nr)...)
	c.resolutionAll(y, rspecs)
	c.Bound("cells: every two-candidate conflict cell of the emitted dense table of the fixed corpus and %d random grammars with random precedence declarations, decided against the statement's resolution rules as Horn clauses (Z3 datalog)", nr)
	c.Explanation += " (V) for fixed and random grammars with %left/%right/%nonassoc/%prec declarations, every two-candidate conflict cell of the emitted dense table is decided by Z3's datalog engine against the resolution rules of the statement (levels and associativities taken from the specification, candidates from the Horn LALR(1) model)."
}
