package checks

import (
	"encoding/json"
	"fmt"
	"os"
	"os/exec"
	"path/filepath"
	"time"
)

type YJob struct {
	Name    string
	Text    string
	Variant string
	Out     string
	Out2    string
}

type DumpItem struct{ Rule, Dot int }
type DumpGoto struct{ Sym, To int }
type DumpState struct {
	Index int
	Items []DumpItem
	Gotos []DumpGoto
}
type DumpSym struct {
	ID       int
	Name     string
	Value    int
	Tag      string
	IsNT     bool
	Nullable bool
	Prec     int
	PrecType int
}
type DumpRule struct {
	Lhs      int
	Rhs      []int
	PrecSym  int
	Prec     int
	PrecType int
}
type DumpLA struct {
	State int
	Rule  int
	Syms  []int
}
type Dump struct {
	Symbols    []DumpSym
	Rules      []DumpRule
	States     []DumpState
	LA         []DumpLA
	GTable     [][]int
	NeedPacked bool
	Action     []int
	Offset     []int
	Check      []int
	ActDef     []int
	GotoDef    []int
	NTerminals int
	ErrorCode  int
	AcceptCode int
}

type YRes struct {
	Name    string
	Variant string
	OK      bool
	Err     string
	Panic   string
	Stdout  string
	Dump    *Dump
}

// YGen is the natively built generation driver for the current /repo tree.
type YGen struct {
	Bin string
	dir string
}

// BuildYGen compiles ygen against /repo's working tree (with the native helper overlay).
func (c *Ctx) BuildYGen() (*YGen, error) {
	t0 := time.Now()
	defer func() { vlog("BuildYGen %v", time.Since(t0).Round(time.Millisecond)) }()
	dir := c.Scratch()
	src, err := os.ReadFile(filepath.Join(VerifDir, "tool", "ygen", "main.go.txt"))
	if err != nil {
		return nil, err
	}
	os.WriteFile(filepath.Join(dir, "main.go"), src, 0o644)
	gomod := "module verifygen\n\ngo 1.18\n\nrequire " + RepoModule + " v0.0.0\n\nreplace " + RepoModule + " => " + RepoDir + "\n"
	os.WriteFile(filepath.Join(dir, "go.mod"), []byte(gomod), 0o644)
	if b, err := os.ReadFile(filepath.Join(RepoDir, "go.sum")); err == nil {
		os.WriteFile(filepath.Join(dir, "go.sum"), b, 0o644)
	}
	repl := map[string]string{}
	for _, rel := range []string{"LALR/zz_verif_dump.go", "Builder/zz_verif_gen.go"} {
		repl[filepath.Join(RepoDir, rel)] = filepath.Join(VerifDir, "harness", "_native", rel)
	}
	ov := filepath.Join(dir, "overlay.json")
	WriteJSON(ov, map[string]interface{}{"Replace": repl})
	bin := filepath.Join(dir, "ygen")
	cmd := exec.Command("go", "build", "-overlay", ov, "-o", bin, ".")
	cmd.Dir = dir
	cmd.Env = goEnv()
	out, err := runWithTimeout(cmd, 5*time.Minute)
	if err != nil {
		return nil, fmt.Errorf("ygen does not build against the tree: %v: %s", err, tailStr(out, 1500))
	}
	return &YGen{Bin: bin, dir: dir}, nil
}

func vlog(format string, a ...interface{}) {
	if os.Getenv("VERIF_VERBOSE") != "" {
		fmt.Printf("  [phase] "+format+"\n", a...)
	}
}

func tailStr(s string, n int) string {
	if len(s) > n {
		return s[len(s)-n:]
	}
	return s
}

// Run executes a batch of generation jobs in one process under a deadline.
func (y *YGen) Run(jobs []YJob, timeout time.Duration) ([]YRes, error) {
	f, err := os.CreateTemp(y.dir, "jobs-*.json")
	if err != nil {
		return nil, err
	}
	b, _ := json.Marshal(jobs)
	f.Write(b)
	f.Close()
	outPath := f.Name() + ".out"
	cmd := exec.Command(y.Bin, f.Name(), outPath)
	cmd.Dir = y.dir
	out, err := runWithTimeout(cmd, timeout)
	if err != nil {
		return nil, fmt.Errorf("ygen: %v: %s", err, tailStr(out, 800))
	}
	rb, err := os.ReadFile(outPath)
	if err != nil {
		return nil, err
	}
	var res []YRes
	if err := json.Unmarshal(rb, &res); err != nil {
		return nil, err
	}
	os.Remove(f.Name())
	os.Remove(outPath)
	return res, nil
}
