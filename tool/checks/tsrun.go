package checks

import (
	"fmt"
	"os"
	"os/exec"
	"path/filepath"
	"strconv"
	"strings"
	"time"

	"verif/tool/corpus"
	"verif/tool/gosym"
	"verif/tool/tsmini"
)

// ---- reference recognisers on the specification (tool side; the TS harness cannot host them) ----

type specRef struct {
	s   *corpus.Spec
	T   int
	lhs []int   // per rule (1-based)
	rhs [][]int // per rule
}

func newSpecRef(s *corpus.Spec) *specRef {
	r := &specRef{s: s, T: len(s.Toks), lhs: []int{0}, rhs: [][]int{nil}}
	for _, rl := range s.Rules {
		r.lhs = append(r.lhs, s.SymIndex(rl.Lhs))
		var rr []int
		for _, x := range rl.Rhs {
			rr = append(rr, s.SymIndex(x))
		}
		r.rhs = append(r.rhs, rr)
	}
	return r
}

type refNode struct {
	sym, rule, leaf int
	kids            []int
}

// derive replays the reduction log backwards as a rightmost derivation with yield terms.
func (r *specRef) derive(log []int, terms []int) (bool, []refNode) {
	nodes := []refNode{{sym: r.s.SymIndex(r.s.Start)}}
	form := []int{0}
	for i := len(log) - 1; i >= 0; i-- {
		k := log[i]
		if k < 1 || k >= len(r.lhs) {
			return false, nil
		}
		p := len(form) - 1
		for p >= 0 && nodes[form[p]].sym < r.T {
			p--
		}
		if p < 0 || nodes[form[p]].sym != r.lhs[k] {
			return false, nil
		}
		n := form[p]
		nodes[n].rule = k
		var kids []int
		for _, s := range r.rhs[k] {
			nodes = append(nodes, refNode{sym: s})
			kids = append(kids, len(nodes)-1)
		}
		nodes[n].kids = kids
		nf := append(append(append([]int{}, form[:p]...), kids...), form[p+1:]...)
		form = nf
	}
	if len(form) != len(terms) {
		return false, nil
	}
	for i := range form {
		if nodes[form[i]].sym != terms[i] {
			return false, nil
		}
		nodes[form[i]].leaf = i
	}
	return true, nodes
}

// eval computes the attribute value of node n as a term over the token values.
func (r *specRef) eval(nodes []refNode, n int, vals []*gosym.Term) *gosym.Term {
	nd := nodes[n]
	if nd.sym < r.T {
		if r.s.Toks[nd.sym].Tag == "alt" {
			return gosym.Bin(gosym.OpAdd, vals[nd.leaf], gosym.ConstInt(64, 1000))
		}
		return vals[nd.leaf]
	}
	rl := r.s.Rules[nd.rule-1]
	k0 := rl.K0
	if r.s.NTTag[rl.Lhs] == "" {
		return gosym.ConstInt(64, 0)
	}
	v := gosym.ConstInt(64, int64(k0))
	for i, kid := range nd.kids {
		if rl.Coef[i] != 0 {
			v = gosym.Bin(gosym.OpAdd, v, gosym.Bin(gosym.OpMul, gosym.ConstInt(64, int64(rl.Coef[i])), r.eval(nodes, kid, vals)))
		}
	}
	return v
}

type earleyItem struct{ rule, dot, origin int }

func (r *specRef) rhsOf(rule int) []int {
	if rule == 0 {
		return []int{r.s.SymIndex(r.s.Start)}
	}
	return r.rhs[rule]
}

// earley returns the longest viable prefix length (capped at len(terms)) and acceptance.
func (r *specRef) earley(terms []int) (int, bool) {
	n := len(terms)
	sets := make([][]earleyItem, n+1)
	sets[0] = []earleyItem{{0, 0, 0}}
	add := func(i int, it earleyItem) bool {
		for _, x := range sets[i] {
			if x == it {
				return false
			}
		}
		sets[i] = append(sets[i], it)
		return true
	}
	viable := 0
	for i := 0; i <= n; i++ {
		if len(sets[i]) == 0 {
			break
		}
		viable = i
		for changed := true; changed; {
			changed = false
			for j := 0; j < len(sets[i]); j++ {
				it := sets[i][j]
				rhs := r.rhsOf(it.rule)
				if it.dot < len(rhs) {
					if x := rhs[it.dot]; x >= r.T {
						for k := 1; k < len(r.lhs); k++ {
							if r.lhs[k] == x && add(i, earleyItem{k, 0, i}) {
								changed = true
							}
						}
					}
				} else {
					lhs := -1
					if it.rule != 0 {
						lhs = r.lhs[it.rule]
					}
					for _, p := range sets[it.origin] {
						pr := r.rhsOf(p.rule)
						if p.dot < len(pr) && pr[p.dot] == lhs && add(i, earleyItem{p.rule, p.dot + 1, p.origin}) {
							changed = true
						}
					}
				}
			}
		}
		if i < n {
			for _, it := range sets[i] {
				rhs := r.rhsOf(it.rule)
				if it.dot < len(rhs) && rhs[it.dot] == terms[i] {
					add(i+1, earleyItem{it.rule, it.dot + 1, it.origin})
				}
			}
		}
	}
	acc := false
	if viable == n {
		for _, it := range sets[n] {
			if it.rule == 0 && it.dot == 1 && it.origin == 0 {
				acc = true
			}
		}
	}
	return viable, acc
}

// ---- running the emitted TypeScript parser in tsmini ----

// tsOutcome mirrors VerifOutcome of the Go harness.
type tsOutcome struct {
	Kind     int // 0 accept, 1 logged grammar error + null, 3 TypeError/other exception, 4 null without report
	Msg      string
	Val      *gosym.Term
	ValKnown bool
	Log      []int
	Requests int
}

type asserter interface {
	Assert(c *gosym.Term, what string)
	Cover(label string)
}

// tsRun executes Parser("") of the emitted TS file on the given token / value arrays.
func tsRun(st *gosym.State, prog *tsmini.Program, s *corpus.Spec, toks, vals []*gosym.Term, useIdx bool) (out tsOutcome, in *tsmini.Interp) {
	defer func() {
		if r := recover(); r != nil {
			switch x := r.(type) {
			case *tsmini.Throw:
				out.Kind, out.Msg = 3, x.Kind+": "+x.Msg
				if in != nil {
					out.Log, out.Requests = tsLog(in), tsInt(in.Global("verifRequests"))
				}
			case tsmini.Unsupported:
				st.End("unsupported", "tsmini: "+x.What)
			default:
				panic(r)
			}
		}
	}()
	in = tsmini.New(st, prog)
	in.MaxLoop = 2000
	out = tsRunOn(st, in, s, toks, vals, useIdx)
	return
}

// tsRunOn runs Parser("") on an existing interpreter state (for histories).
func tsRunOn(st *gosym.State, in *tsmini.Interp, s *corpus.Spec, toks, vals []*gosym.Term, useIdx bool) (out tsOutcome) {
	defer func() {
		if r := recover(); r != nil {
			switch x := r.(type) {
			case *tsmini.Throw:
				out.Kind, out.Msg = 3, x.Kind+": "+x.Msg
				out.Log, out.Requests = tsLog(in), tsInt(in.Global("verifRequests"))
			case tsmini.Unsupported:
				st.End("unsupported", "tsmini: "+x.What)
			default:
				panic(r)
			}
		}
	}()
	nOut := len(st.Output)
	arr := func(ts []*gosym.Term) *tsmini.Array {
		a := &tsmini.Array{}
		for _, t := range ts {
			a.Elems = append(a.Elems, t)
		}
		return a
	}
	in.SetGlobal("verifTok", arr(toks))
	in.SetGlobal("verifVal", arr(vals))
	in.SetGlobal("verifLog", &tsmini.Array{})
	in.SetGlobal("verifRequests", gosym.ConstInt(64, 0))
	in.SetGlobal("verifUseIdx", gosym.BoolT(useIdx))
	res := in.Call("Parser", strings.Repeat("x", len(toks)))
	out.Log, out.Requests = tsLog(in), tsInt(in.Global("verifRequests"))
	switch r := res.(type) {
	case *tsmini.Object:
		out.Kind = 0
		if tag := s.NTTag[s.Start]; tag != "" {
			if t, ok := r.Fields[tag].(*gosym.Term); ok {
				out.Val, out.ValKnown = t, true
			}
		} else {
			out.Val, out.ValKnown = gosym.ConstInt(64, 0), true
		}
	case tsmini.Null:
		logged := false
		for _, l := range st.Output[nOut:] {
			if strings.HasPrefix(l, "console.error: Gramm") {
				logged = true
			}
		}
		if logged {
			out.Kind = 1
		} else {
			out.Kind = 4
		}
	default:
		out.Kind, out.Msg = 4, fmt.Sprintf("Parser returned %T", res)
	}
	return
}

func tsInt(v tsmini.Value) int {
	if t, ok := v.(*gosym.Term); ok && t.IsConst() {
		return int(t.Int())
	}
	return -1
}

func tsLog(in *tsmini.Interp) []int {
	a, ok := in.Global("verifLog").(*tsmini.Array)
	if !ok {
		return nil
	}
	var out []int
	for _, e := range a.Elems {
		out = append(out, tsInt(e))
	}
	return out
}

// tsCodes reads the token codes of the spec's terminals from the loaded TS program.
func tsCodes(in *tsmini.Interp, s *corpus.Spec) []int64 {
	var out []int64
	for _, t := range s.Toks {
		if t.Name == "" {
			out = append(out, int64(t.Char))
		} else if v, ok := in.Global(t.Name).(*gosym.Term); ok && v.IsConst() {
			out = append(out, v.Int())
		} else {
			out = append(out, -99)
		}
	}
	return out
}

// checkParseOutcome asserts the parse properties (same logic as VerifParse in harness/gen/ref.go.txt).
func checkParseOutcome(a asserter, simp func(*gosym.Term) *gosym.Term, ref *specRef, codes []int64, toks, vals []*gosym.Term, out tsOutcome, mode int, tag string) {
	N := len(toks)
	req := out.Requests
	if req > N {
		req = N
	}
	sawEOF := out.Requests > N
	var terms []int
	for i := 0; i < req; i++ {
		t := simp(toks[i])
		if t.IsConst() && t.Int() == -1 {
			sawEOF = true
			break
		}
		term := -1
		if t.IsConst() {
			for k, c := range codes {
				if c == t.Int() {
					term = k
				}
			}
		}
		terms = append(terms, term)
	}
	F := gosym.False
	B := gosym.BoolT
	switch out.Kind {
	case 0:
		a.Cover("accept")
		if mode&modeSound != 0 {
			a.Assert(B(sawEOF), "C01: accepted before the end of input was seen"+tag)
			a.Assert(B(out.Requests == len(terms)+1), "C01: accepted input was not requested exactly once per token"+tag)
			ok, _ := ref.derive(out.Log, terms)
			a.Assert(B(ok), "C01: reduction log is not a rightmost derivation of the input"+tag)
		}
		if mode&modeError != 0 {
			a.Assert(B(sawEOF), "C06: a result was returned before the end of input was seen"+tag)
			if mode&modeLALR != 0 {
				_, acc := ref.earley(terms)
				a.Assert(B(sawEOF && acc), "C06: a non-sentence was accepted and a result returned"+tag)
			}
		}
		if mode&modeValue != 0 {
			ok, nodes := ref.derive(out.Log, terms)
			a.Assert(B(ok), "C07: the actions that ran are not the actions of the parse tree of the input (an action was skipped, repeated or misplaced)"+tag)
			if ok {
				a.Cover("value")
				a.Assert(B(out.ValKnown), "C07: the parser's value is not a number"+tag)
				if out.ValKnown {
					a.Assert(gosym.Cmp(gosym.OpEq, out.Val, ref.eval(nodes, 0, vals)), "C07: parser value differs from bottom-up evaluation of the actions"+tag)
				}
			}
		}
	case 1:
		a.Cover("reject")
		if mode&modeLALR != 0 && mode&(modeComplete|modeError) != 0 {
			k := out.Requests - 1
			viable, acc := ref.earley(terms)
			if sawEOF {
				if mode&modeComplete != 0 {
					a.Assert(B(!acc), "C02: a sentence of the grammar was rejected (at end of input)"+tag)
				}
				if mode&modeError != 0 {
					a.Assert(B(viable == len(terms)), "C06: error reported later than the first token that cannot continue a sentence"+tag)
				}
			} else {
				if mode&modeComplete != 0 {
					a.Assert(B(viable < len(terms)), "C02: a viable prefix of the grammar was rejected"+tag)
				}
				if mode&modeError != 0 {
					a.Assert(B(len(terms) == k+1), "C06: request count and offending token disagree"+tag)
					a.Assert(B(viable >= len(terms)-1), "C06: error reported later than the first token that cannot continue a sentence"+tag)
				}
			}
		}
	default:
		a.Cover("crash")
		if mode&modeError != 0 {
			a.Assert(F, "C06: input rejected outside the documented error channel"+tag+" ("+out.Msg+")")
		}
	}
}

type stateAsserter struct{ st *gosym.State }

func (s stateAsserter) Assert(c *gosym.Term, what string) { s.st.Assert(c, what) }
func (s stateAsserter) Cover(l string)                    { s.st.Cover(l) }

// tsParseJob explores Parser() of the emitted TS file over N symbolic token codes.
func (c *Ctx) tsParseJob(eng *gosym.Engine, s *corpus.Spec, tsPath string, N, mode int, tag string) {
	src, err := os.ReadFile(tsPath)
	if err != nil {
		c.Inconclusive("%s: %v", s.Name, err)
		return
	}
	prog, err := tsmini.Parse(string(src))
	if err != nil {
		c.Inconclusive("%s: emitted TypeScript is outside the tsmini subset: %v", s.Name, err)
		return
	}
	ref := newSpecRef(s)
	name := fmt.Sprintf("%s/ts parse N=%d", s.Name, N)
	cfg := eng.Cfg
	vlog("start %s", name)
	rep := eng.ExploreFunc(name, func(st *gosym.State) {
		n := N
		if N > 0 && st.Branch(st.Fresh("empty", 0)) {
			// the empty text: the very first request meets the end of input at position 0
			n = 0
		}
		toks := make([]*gosym.Term, n)
		vals := make([]*gosym.Term, n)
		for i := range toks {
			toks[i] = st.Fresh("c", 64)
			vals[i] = st.Fresh("v", 64)
		}
		out, in := tsRun(st, prog, s, toks, vals, false)
		codes := tsCodes(in, s)
		checkParseOutcome(stateAsserter{st}, st.Simp, ref, codes, toks, vals, out, mode, " [typescript]")
		for _, f := range in.FunctionsEncoded() {
			st.Note(f)
		}
	}, &cfg)
	c.absorb(name, rep)
	// violations: replay under node with the stripped program
	seen := map[string]bool{}
	for _, v := range rep.Violations {
		key := fmt.Sprintf("%s:%s:ts:%s", tag, s.Name, tokenKey(v))
		if seen[key] || len(seen) >= 3 {
			continue
		}
		seen[key] = true
		c.confirmTS(prog, s, ref, v, N, mode, key)
	}
}

// absorb merges an exploration report into the check (problems, samples, counters).
func (c *Ctx) absorb(name string, rep *gosym.Report) {
	if os.Getenv("VERIF_VERBOSE") != "" {
		fmt.Printf("  job %-50s paths=%-6d wall=%-8v solver=%-8v steps=%d status=%v\n", name, rep.Paths, rep.Wall.Round(time.Millisecond), rep.SolverTime.Round(time.Millisecond), rep.Steps, rep.Status)
	}
	c.mu.Lock()
	if c.Rep == nil {
		c.Rep = gosym.NewReport(c.ID)
	}
	c.Rep.Merge(rep)
	c.Evaluations += rep.Paths
	c.mu.Unlock()
	for _, p := range rep.Problems {
		c.Inconclusive("%s: %s", name, p)
	}
	if rep.Truncated {
		c.Inconclusive("%s: exploration truncated at %d paths", name, rep.Paths)
	}
	for _, s := range rep.Samples {
		c.AddSample(map[string]interface{}{"job": name, "decisions": s.Decisions, "path_condition": s.PC, "model": s.Model, "covers": s.Covers})
	}
}

type nativeAsserter struct{ failed []string }

func (n *nativeAsserter) Assert(c *gosym.Term, what string) {
	if !(c.IsConst() && c.C == 1) {
		n.failed = append(n.failed, what)
	}
}
func (n *nativeAsserter) Cover(string) {}

// confirmTS runs the type-stripped program under node on the model's concrete input and
// re-evaluates the property on the concrete outcome.
func (c *Ctx) confirmTS(prog *tsmini.Program, s *corpus.Spec, ref *specRef, v gosym.Violation, N, mode int, key string) {
	dir := c.Scratch()
	var toks, vals []int64
	if v.Model["empty!0"] != 0 {
		N = 0
	}
	for i := 0; i < N; i++ {
		toks = append(toks, int64(v.Model[fmt.Sprintf("c!%d", i)]))
		vals = append(vals, int64(v.Model[fmt.Sprintf("v!%d", i)]))
	}
	out, codes, err := runNode(dir, prog, s, toks, vals, false)
	path := filepath.Join(VerifDir, "replays", c.ID, sanitize(key)+".json")
	WriteJSON(path, map[string]interface{}{"property": c.ID, "key": key, "kind": "typescript", "grammar": s.Name, "what": v.What,
		"tokens": toks, "values": vals, "node_outcome": fmt.Sprintf("%+v", out), "grammar_text": s.TSText(),
		"replay": "generate the TypeScript parser, blank the type annotations, set verifTok/verifVal to the tokens/values, call Parser(\"\") under node"})
	if err != nil {
		c.Inconclusive("%s: node replay failed: %v", key, err)
		return
	}
	tt := make([]*gosym.Term, N)
	vv := make([]*gosym.Term, N)
	for i := range tt {
		tt[i] = gosym.ConstInt(64, toks[i])
		vv[i] = gosym.ConstInt(64, vals[i])
	}
	na := &nativeAsserter{}
	checkParseOutcome(na, func(t *gosym.Term) *gosym.Term { return t }, ref, codes, tt, vv, out, mode, " [typescript]")
	if len(na.failed) > 0 {
		c.Report(key, na.failed[0]+fmt.Sprintf(" — grammar %s, tokens %v", s.Name, toks), path)
	} else {
		c.Inconclusive("%s: tsmini found a violation (%s) that node does not reproduce: tsmini suspect, replay=%s", key, v.What, path)
	}
}

// runNode executes the stripped program under node and returns the concrete outcome.
func runNode(dir string, prog *tsmini.Program, s *corpus.Spec, toks, vals []int64, useIdx bool) (tsOutcome, []int64, error) {
	js := prog.StripTypes()
	var names []string
	for _, t := range s.Toks {
		if t.Name == "" {
			names = append(names, fmt.Sprint(int(t.Char)))
		} else {
			names = append(names, t.Name)
		}
	}
	tag := s.NTTag[s.Start]
	valExpr := "0"
	if tag != "" {
		valExpr = "r." + tag
	}
	js += fmt.Sprintf(`
;(function(){
  verifTok = %s; verifVal = %s; verifLog = []; verifRequests = 0; verifUseIdx = %v;
  let logged = false; const ce = console.error; console.error = function(){ logged = true; };
  let out = {};
  try {
    const r = Parser(verifInputText());
    if (r === null || r === undefined) { out.kind = logged ? 1 : 4; }
    else { out.kind = 0; out.val = String(%s); }
  } catch (e) { out.kind = 3; out.msg = String(e); }
  console.error = ce;
  out.log = verifLog; out.requests = verifRequests; out.codes = [%s];
  console.log("VERIF-TS " + JSON.stringify(out));
})();
`, jsArr(toks), jsArr(vals), useIdx, valExpr, strings.Join(names, ","))
	f := filepath.Join(dir, fmt.Sprintf("run-%d.js", time.Now().UnixNano()))
	os.WriteFile(f, []byte(js), 0o644)
	cmd := exec.Command("node", f)
	o, err := runWithTimeout(cmd, 30*time.Second)
	var out tsOutcome
	for _, l := range strings.Split(o, "\n") {
		if strings.HasPrefix(l, "VERIF-TS ") {
			var doc struct {
				Kind     int
				Val      string
				Msg      string
				Log      []int
				Requests int
				Codes    []int64
			}
			if e := jsonUnmarshal(l[9:], &doc); e != nil {
				return out, nil, e
			}
			out.Kind, out.Msg, out.Log, out.Requests = doc.Kind, doc.Msg, doc.Log, doc.Requests
			if doc.Kind == 0 {
				var n int64
				if _, e := fmt.Sscan(doc.Val, &n); e == nil {
					out.Val, out.ValKnown = gosym.ConstInt(64, n), true
				}
			}
			return out, doc.Codes, nil
		}
	}
	if err == nil {
		err = fmt.Errorf("no VERIF-TS line")
	}
	return out, nil, fmt.Errorf("%v: %s", err, tailStr(o, 400))
}

func jsArr(xs []int64) string {
	var p []string
	for _, x := range xs {
		p = append(p, fmt.Sprint(x))
	}
	return "[" + strings.Join(p, ",") + "]"
}

// tsStepMessages explains the failure codes of verifStep (corpus.TSStepEpilogue).
var tsStepMessages = map[int]string{
	1: "C06 (step): the table has an error entry for the lookahead but the driver returned a result",
	2: "C06 (step): the table has an error entry for the lookahead but the driver went on to request another token",
	3: "C01 (step): the driver ran an action the table does not ask for",
	4: "C01/C02 (step): the table accepts here but the driver returned null",
	5: "C01 (step): the table accepts here but the driver requested another token first",
	6: "C07 (step): the value returned is not the value of the start symbol on the stack",
	7: "C06 (step): a code that is no token of the grammar is shifted",
	8: "C01/C02 (step): the table shifts the lookahead but the driver did not go on to the next token",
	9: "C01/C07 (step): the table reduces but no further action ran",
	10: "C01/C07 (step): the action that ran is not the action of the rule the table selected",
	11: "C01 (step): stack depth after the step differs from the LR machine's",
	12: "C01 (step): a state on the stack differs from the LR machine's",
	13: "C01 (step): a symbol on the stack differs from the LR machine's",
	14: "C07 (step): a value on the stack is not the value the actions compute",
}

// tsStepJob is the step lemma for the emitted TypeScript driver: the harness is TypeScript text
// in the grammar's epilogue (corpus.TSStepEpilogue), executed symbolically by tsmini; the
// configuration (a path of the emitted automaton, arbitrary values and stale slots) and the
// lookahead are chosen here. Violations are replayed under node with the same text.
func (c *Ctx) tsStepJob(eng *gosym.Engine, s *corpus.Spec, d *Dump, tsPath string, D int, tag string) {
	src, err := os.ReadFile(tsPath)
	if err != nil {
		c.Inconclusive("%s: %v", s.Name, err)
		return
	}
	prog, err := tsmini.Parse(string(src))
	if err != nil {
		c.Inconclusive("%s: emitted TypeScript is outside the tsmini subset: %v", s.Name, err)
		return
	}
	nsym := len(s.Toks) + len(s.NTs)
	ids := make([]int, nsym)
	for i, t := range s.Toks {
		ids[i] = d.symByRef(t.Ref())
	}
	for i, n := range s.NTs {
		ids[len(s.Toks)+i] = d.symByRef(n)
	}
	for _, id := range ids {
		if id < 0 {
			c.Inconclusive("%s: a symbol of the specification is missing in the dump", s.Name)
			return
		}
	}
	num := func(v int) *gosym.Term { return gosym.ConstInt(64, int64(v)) }
	arr := func(xs []*gosym.Term) *tsmini.Array {
		a := &tsmini.Array{}
		for _, x := range xs {
			a.Elems = append(a.Elems, x)
		}
		return a
	}
	inRange := func(st *gosym.State, name string, lo, hi int) int {
		t := st.Fresh(name, 64)
		st.Assume(gosym.And(gosym.Cmp(gosym.OpSLe, num(lo), t), gosym.Cmp(gosym.OpSLe, t, num(hi))))
		return st.ConcInt(t)
	}
	name := fmt.Sprintf("%s/ts step D=%d", s.Name, D)
	cfg := eng.Cfg
	vlog("start %s", name)
	rep := eng.ExploreFunc(name, func(st *gosym.State) {
		in := tsmini.New(st, prog)
		in.MaxLoop = 2000
		defer func() {
			if r := recover(); r != nil {
				switch x := r.(type) {
				case *tsmini.Throw:
					st.Assert(gosym.False, "C06 (step): the TypeScript driver crashed ("+x.Kind+": "+x.Msg+")")
				case tsmini.Unsupported:
					st.End("unsupported", "tsmini: "+x.What)
				default:
					panic(r)
				}
			}
		}()
		errA, accA := tsInt(in.Global("ERROR_ACTION")), tsInt(in.Global("ACCEPT_ACTION"))
		n := inRange(st, "depth", 1, D)
		slots := inRange(st, "slots", n, D)
		sq, sid, sx := []*gosym.Term{num(0)}, []*gosym.Term{num(1)}, []*gosym.Term{num(-1)}
		sv, sw := []*gosym.Term{num(0)}, []*gosym.Term{num(0)}
		cur := 0
		for i := 1; i < n; i++ {
			x := inRange(st, "sym", 0, nsym-1)
			q := tsInt(in.Call("verifAct", num(cur), num(ids[x])))
			if q <= 0 || q == errA || q == accA {
				st.Assume(gosym.False)
				return
			}
			cur = q
			sq, sid, sx = append(sq, num(q)), append(sid, num(ids[x])), append(sx, num(x))
			sv, sw = append(sv, st.Fresh("sv", 64)), append(sw, st.Fresh("sw", 64))
		}
		gq := 1
		if slots > n && inRange(st, "gq", 0, 1) == 1 {
			gq = len(d.States) - 1
		}
		for i := n; i < slots; i++ {
			// stale slots: all with state 1 or the last state (one choice per run), symbol 2, arbitrary values
			sq, sid, sx = append(sq, num(gq)), append(sid, num(2)), append(sx, num(-1))
			sv, sw = append(sv, st.Fresh("gv", 64)), append(sw, st.Fresh("gw", 64))
		}
		var idT []*gosym.Term
		for _, id := range ids {
			idT = append(idT, num(id))
		}
		tok, tv := st.Fresh("c", 64), st.Fresh("v", 64)
		res := in.Call("verifStep", num(n), arr(sq), arr(sid), arr(sx), arr(sv), arr(sw), arr(idT), tok, tv)
		code := tsInt(res)
		switch {
		case code == 0:
			st.Cover("ts-step")
		case code == 100:
			st.Assume(gosym.False)
		default:
			msg := tsStepMessages[code]
			if msg == "" {
				msg = fmt.Sprintf("step harness returned %v", res)
			}
			st.Assert(gosym.False, msg+" [typescript]")
		}
		for _, f := range in.FunctionsEncoded() {
			st.Note(f)
		}
	}, &cfg)
	c.absorb(name, rep)
	seen := map[string]bool{}
	for _, v := range rep.Violations {
		key := fmt.Sprintf("%s:%s:ts-step:%s", tag, s.Name, v.What)
		if seen[key] || len(seen) >= 2 {
			continue
		}
		seen[key] = true
		c.confirmTSStep(prog, s, ids, len(d.States), v, key)
	}
}

// confirmTSStep rebuilds the configuration of a model and calls the same verifStep under node.
func (c *Ctx) confirmTSStep(prog *tsmini.Program, s *corpus.Spec, ids []int, nStates int, v gosym.Violation, key string) {
	dir := c.Scratch()
	get := func(name string, k int) int64 { return int64(v.Model[fmt.Sprintf("%s!%d", name, k)]) }
	n, slots := int(get("depth", 0)), int(get("slots", 0))
	js := prog.StripTypes()
	var b strings.Builder
	b.WriteString(js)
	b.WriteString("\n;(function(){\n")
	fmt.Fprintf(&b, "const ids = %s;\n", jsArrInt(ids))
	b.WriteString("let sq=[0], sid=[1], sx=[-1], sv=[0], sw=[0], cur=0;\n")
	for i := 1; i < n; i++ {
		x := get("sym", i-1)
		fmt.Fprintf(&b, "{ const x=%d; const q=verifAct(cur, ids[x]); cur=q; sq.push(q); sid.push(ids[x]); sx.push(x); sv.push(%d); sw.push(%d); }\n", x, get("sv", i-1), get("sw", i-1))
	}
	for i := n; i < slots; i++ {
		gq := 1
		if get("gq", 0) == 1 {
			gq = nStates - 1
		}
		fmt.Fprintf(&b, "sq.push(%d); sid.push(2); sx.push(-1); sv.push(%d); sw.push(%d);\n", gq, get("gv", i-n), get("gw", i-n))
	}
	b.WriteString("let r; const ce=console.error; console.error=function(){};\n")
	fmt.Fprintf(&b, "try { r = verifStep(%d, sq, sid, sx, sv, sw, ids, %d, %d) } catch(e) { r = 'crash: '+e }\n", n, get("c", 0), get("v", 0))
	b.WriteString("console.error=ce; console.log('VERIF-STEP '+r);\n})();\n")
	jsPath := filepath.Join(dir, "step_"+sanitize(key)+".js")
	os.WriteFile(jsPath, []byte(b.String()), 0o644)
	path := filepath.Join(VerifDir, "replays", c.ID, sanitize(key)+".json")
	out, err := runWithTimeout(exec.Command("node", jsPath), 60*time.Second)
	res := ""
	for _, l := range strings.Split(out, "\n") {
		if strings.HasPrefix(l, "VERIF-STEP ") {
			res = strings.TrimPrefix(l, "VERIF-STEP ")
		}
	}
	WriteJSON(path, map[string]interface{}{"property": c.ID, "key": key, "kind": "typescript-step", "grammar": s.Name, "what": v.What,
		"model": modelInts(v), "node_result": res, "grammar_text": s.TSText(),
		"replay": "generate the TypeScript parser, blank the type annotations, rebuild the configuration from the model (depth, sym!i, sv/sw, stale slots) and call verifStep(...) under node: a result other than 0 or 100 confirms"})
	switch {
	case err != nil && res == "":
		c.Inconclusive("%s: node replay failed: %v %s", key, err, tailStr(out, 200))
	case res == "0" || res == "100":
		c.Inconclusive("%s: tsmini found a violation (%s) that node does not reproduce (verifStep = %s): tsmini suspect, replay=%s", key, v.What, res, path)
	default:
		c.Report(key, v.What+fmt.Sprintf(" — grammar %s, node: verifStep = %s", s.Name, res), path)
	}
}

func jsArrInt(xs []int) string {
	var p []string
	for _, x := range xs {
		p = append(p, strconv.Itoa(x))
	}
	return "[" + strings.Join(p, ",") + "]"
}
