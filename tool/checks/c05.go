package checks

import (
	"fmt"
	"strings"
	"sync"
	"verif/tool/corpus"

	"verif/tool/gosym"
)

func init() { register("C05", C05) }

// packShapes lists the r x c shapes explored by the unit harness.
func packShapes(thorough bool) [][2]int {
	maxCells := 8
	if thorough {
		maxCells = 12
	}
	var out [][2]int
	for r := 1; r <= 6; r++ {
		for c := 1; c <= maxCells; c++ {
			if r*c <= maxCells {
				out = append(out, [2]int{r, c})
			}
		}
	}
	return out
}

func packKey(r, c int) func(v gosym.Violation) string {
	return func(v gosym.Violation) string {
		var sb strings.Builder
		fmt.Fprintf(&sb, "pack:%dx%d:", r, c)
		for i := 0; i < r*c; i++ {
			if v.Model[fmt.Sprintf("cell!%d", i)] == 0 {
				sb.WriteByte('0')
			} else {
				sb.WriteByte('x')
			}
		}
		return sb.String()
	}
}

func C05(c *Ctx) {
	c.Level = "model_checking"
	c.Explanation = "C05-U: Utils.PackTable/UnPackTable executed symbolically from go/ssa on r x c matrices whose every cell is an unconstrained 64-bit value; the round trip is asserted cell-wise and decided by Z3 on every feasible path (one path per zero pattern)."
	eng, err := LoadRepo("Utils")
	if err != nil {
		c.Inconclusive("%v", err)
		return
	}
	c.Harnesses = append(c.Harnesses, "harness/Utils/zz_verif_pack.go:VerifPackRoundTrip")
	shapes := packShapes(c.Thorough())
	c.Bound("PackTable/UnPackTable round trip: all int64 matrices of shapes r*c <= %d (%d shapes)", map[bool]int{false: 8, true: 12}[c.Thorough()], len(shapes))
	c.Outside = append(c.Outside, "matrices with more cells than the bound (covered per corpus grammar by the generated-parser cell check)")
	for _, sh := range shapes {
		r, cc := sh[0], sh[1]
		c.RunSym(SymJob{
			Name: fmt.Sprintf("pack %dx%d", r, cc), Eng: eng, PkgPath: RepoModule + "/Utils", Entry: "VerifPackRoundTrip",
			Args: []int{r, cc}, Replay: ReplaySpec{Kind: "repo", PkgDirs: []string{"Utils"}}, Key: packKey(r, cc), Need: []string{"packed"},
		})
		c.MarkDistinct(fmt.Sprintf("shape %dx%d", r, cc))
	}

	// G: per corpus grammar, the emitted packed look-up against the dense table of the same
	// generation run (cells), and packed vs -u parsers generated through the real entry points.
	y, err := c.BuildYGen()
	if err != nil {
		c.Inconclusive("%v", err)
		return
	}
	specs := gCorpus(c, 0)
	// large tables (the packed vector grows past its first allocation): cells only, one path per cell
	bigCells := map[string]bool{}
	for _, s := range corpus.Fixed() {
		if s.HasTag("big") {
			specs = append(specs, s)
			bigCells[s.Name] = true
		}
	}
	g, err := c.Generate(y, specs, []string{"go", "go-u", "pair-p", "pair-u"}, nil)
	if err != nil {
		c.Inconclusive("%v", err)
		return
	}
	specs = g.Specs
	N := 4
	if c.Thorough() {
		N = 6
	}
	c.Harnesses = append(c.Harnesses, "generated <grammar>/cmp/cmp.go:VerifCells, VerifAgree")
	c.Bound("G-cell: every (state, symbol) of %d corpus grammars, both symbolic; G-behaviour: packed vs -u on all inputs of length <= %d", len(specs), N)
	c.Explanation += " C05-G: for each corpus grammar the packed and the unpacked parser are generated from one ParseAndBuild (overlay helper calling the real build steps) and the emitted Action(state,symbol) of both files is compared for symbolic (state, symbol); in addition packed and -u parsers generated through TemplateGenFromString are compared on all abstract inputs up to N."
	packedSeen := 0
	for _, s := range specs {
		if r := g.Results[genKey(s.Name, "pair-p")]; r.Dump != nil && r.Dump.NeedPacked {
			packedSeen++
		}
	}
	if packedSeen == 0 {
		c.Inconclusive("no corpus grammar produced a packed table (vacuous cell check)")
	}
	c.Extra["grammars_with_packed_tables"] = packedSeen
	var wg sync.WaitGroup
	sem := make(chan struct{}, 4)
	for _, s := range specs {
		s := s
		wg.Add(1)
		sem <- struct{}{}
		go func() {
			defer wg.Done()
			defer func() { <-sem }()
			pin := 0
			if bigCells[s.Name] {
				pin = 1
			}
			job := c.cmpJob(g, s, "VerifCells", []int{pin}, "C05cell")
			job.Need = []string{"cell"}
			job.Tweak = func(cfg *gosym.Config) { cfg.MaxSymIndex = 100000 }
			c.RunSym(job)
			if bigCells[s.Name] {
				c.MarkDistinct("grammar " + s.Name)
				return
			}
			job2 := c.cmpJob(g, s, "VerifAgree", []int{N}, "C05run")
			job2.Need = []string{"reject"}
			c.RunSym(job2)
			c.MarkDistinct("grammar " + s.Name)
		}()
	}
	wg.Wait()
	c.Programs = len(specs)
}
