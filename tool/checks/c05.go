package checks

import (
	"fmt"
	"strings"

	"verif/tool/gosym"
)

func init() { register("C05", C05) }

// packShapes lists the r x c shapes explored by the unit harness.
func packShapes(thorough bool) [][2]int {
	maxCells := 8
	if thorough {
		maxCells = 12
	}
	var out [][2]int
	for r := 1; r <= 6; r++ {
		for c := 1; c <= maxCells; c++ {
			if r*c <= maxCells {
				out = append(out, [2]int{r, c})
			}
		}
	}
	return out
}

func packKey(r, c int) func(v gosym.Violation) string {
	return func(v gosym.Violation) string {
		var sb strings.Builder
		fmt.Fprintf(&sb, "pack:%dx%d:", r, c)
		for i := 0; i < r*c; i++ {
			if v.Model[fmt.Sprintf("cell!%d", i)] == 0 {
				sb.WriteByte('0')
			} else {
				sb.WriteByte('x')
			}
		}
		return sb.String()
	}
}

func C05(c *Ctx) {
	c.Level = "model_checking"
	c.Explanation = "C05-U: Utils.PackTable/UnPackTable executed symbolically from go/ssa on r x c matrices whose every cell is an unconstrained 64-bit value; the round trip is asserted cell-wise and decided by Z3 on every feasible path (one path per zero pattern)."
	eng, err := LoadRepo("Utils")
	if err != nil {
		c.Inconclusive("%v", err)
		return
	}
	c.Harnesses = append(c.Harnesses, "harness/Utils/zz_verif_pack.go:VerifPackRoundTrip")
	shapes := packShapes(c.Thorough())
	c.Bound("PackTable/UnPackTable round trip: all int64 matrices of shapes r*c <= %d (%d shapes)", map[bool]int{false: 8, true: 12}[c.Thorough()], len(shapes))
	c.Outside = append(c.Outside, "matrices with more cells than the bound (covered per corpus grammar by the generated-parser cell check)")
	for _, sh := range shapes {
		r, cc := sh[0], sh[1]
		c.RunSym(SymJob{
			Name: fmt.Sprintf("pack %dx%d", r, cc), Eng: eng, PkgPath: RepoModule + "/Utils", Entry: "VerifPackRoundTrip",
			Args: []int{r, cc}, Replay: ReplaySpec{Kind: "repo", PkgDirs: []string{"Utils"}}, Key: packKey(r, cc), Need: []string{"packed"},
		})
		c.MarkDistinct(fmt.Sprintf("shape %dx%d", r, cc))
	}
}
