package checks

import (
	"fmt"
	"sync"

	"verif/tool/corpus"
	"verif/tool/gosym"
)

func init() { register("C08", C08) }

// cmpJob builds the SymJob for the comparison package of a grammar.
func (c *Ctx) cmpJob(g *GenSet, spec *corpus.Spec, entry string, args []int, keyPrefix string) SymJob {
	return SymJob{
		Name: fmt.Sprintf("%s/cmp %s%v", spec.Name, entry, args), Eng: g.Eng, PkgPath: "verifgen/" + spec.Name + "/cmp", Entry: entry, Args: args,
		Replay: ReplaySpec{Kind: "gencmp", Gen: map[string]string{"spec": spec.Name, "dir": VerifDir + "/replays/" + c.ID + "/mod_" + spec.Name}},
		Key: func(v gosym.Violation) string {
			return fmt.Sprintf("%s:%s:%s:%s", keyPrefix, spec.Name, v.What, modelKey(v, "k", "s", "a"))
		},
		pre: func() { c.storeGenModule(g, spec.Name) },
	}
}

func C08(c *Ctx) {
	c.Level = "model_checking"
	c.Explanation = "C08: the four Go variants generated for one grammar (through the real entry points, one generation each) are imported into one harness package and executed symbolically on the same abstract input (N symbolic terminal indices incl. end-of-input and a non-token, symbolic values); verdict class, request count, reduction log in file-order rule numbers and value term must be equal, decided by Z3 on every path."
	y, err := c.BuildYGen()
	if err != nil {
		c.Inconclusive("%v", err)
		return
	}
	specs := gCorpus(c, 0)
	g, err := c.Generate(y, specs, GoVariants, nil)
	if err != nil {
		c.Inconclusive("%v", err)
		return
	}
	N := 4
	if c.Thorough() {
		N = 6
	}
	c.Harnesses = append(c.Harnesses, "generated <grammar>/cmp/cmp.go:VerifAgree")
	c.Bound("all inputs of length <= %d over {every terminal, end of input, a non-token code} with symbolic int64 values; %d grammars; variants go, go -u, go -o, go -o -u", N, len(specs))
	c.Outside = append(c.Outside, "TypeScript variant (no tsmini)", "inputs longer than N", "raw token codes: the comparison maps terminal indices through each variant's own constants, because automatic token numbers may differ between generation runs (C14)")
	var wg sync.WaitGroup
	sem := make(chan struct{}, 4)
	for _, s := range specs {
		s := s
		wg.Add(1)
		sem <- struct{}{}
		go func() {
			defer wg.Done()
			defer func() { <-sem }()
			job := c.cmpJob(g, s, "VerifAgree", []int{N}, "C08")
			job.Need = []string{"reject"}
			c.RunSym(job)
			c.MarkDistinct(s.Name)
		}()
	}
	wg.Wait()
	c.Programs = len(specs)
}
