package checks

import (
	"fmt"
	"os"
	"path/filepath"
	"strings"
	"sync"

	"verif/tool/tsmini"

	"verif/tool/corpus"
	"verif/tool/gosym"
)

func init() { register("C08", C08) }

// cmpJob builds the SymJob for the comparison package of a grammar.
func (c *Ctx) cmpJob(g *GenSet, spec *corpus.Spec, entry string, args []int, keyPrefix string) SymJob {
	return SymJob{
		Name: fmt.Sprintf("%s/cmp %s%v", spec.Name, entry, args), Eng: g.Eng, PkgPath: "verifgen/" + spec.Name + "/cmp", Entry: entry, Args: args,
		Replay: ReplaySpec{Kind: "gencmp", Gen: map[string]string{"spec": spec.Name, "dir": VerifDir + "/replays/" + c.ID + "/mod_" + spec.Name}},
		Key: func(v gosym.Violation) string {
			return fmt.Sprintf("%s:%s:%s:%s", keyPrefix, spec.Name, v.What, modelKey(v, "k", "s", "a"))
		},
		pre: func() { c.storeGenModule(g, spec.Name) },
	}
}

func C08(c *Ctx) {
	c.Level = "model_checking"
	c.Explanation = "C08: the four Go variants generated for one grammar (through the real entry points, one generation each) are imported into one harness package and executed symbolically on the same abstract input (N symbolic terminal indices incl. end-of-input and a non-token, symbolic values); verdict class, request count, reduction log in file-order rule numbers and value term must be equal, decided by Z3 on every path."
	y, err := c.BuildYGen()
	if err != nil {
		c.Inconclusive("%v", err)
		return
	}
	specs := gCorpus(c, 0)
	g, err := c.Generate(y, specs, append(append([]string{}, GoVariants...), "ts"), nil)
	if err != nil {
		c.Inconclusive("%v", err)
		return
	}
	specs = g.Specs
	N := 4
	if c.Thorough() {
		N = 6
	}
	c.Harnesses = append(c.Harnesses, "generated <grammar>/cmp/cmp.go:VerifAgree")
	c.Bound("all inputs of length <= %d over {every terminal, end of input, a non-token code} with symbolic int64 values; %d grammars; variants go, go -u, go -o, go -o -u, typescript", N, len(specs))
	c.Outside = append(c.Outside, "inputs longer than N", "raw token codes: the comparison maps terminal indices through each variant's own constants, because automatic token numbers may differ between generation runs (C14)")
	var wg sync.WaitGroup
	sem := make(chan struct{}, 4)
	for _, s := range specs {
		s := s
		wg.Add(1)
		sem <- struct{}{}
		go func() {
			defer wg.Done()
			defer func() { <-sem }()
			job := c.cmpJob(g, s, "VerifAgree", []int{N}, "C08")
			job.Need = []string{"reject"}
			c.RunSym(job)
			c.MarkDistinct(s.Name)
		}()
	}
	// TypeScript against the Go parser: both run on the same abstract input in one path
	for _, s := range specs {
		s := s
		wg.Add(1)
		sem <- struct{}{}
		go func() {
			defer wg.Done()
			defer func() { <-sem }()
			c.tsAgreeJob(g, s, N)
			c.MarkDistinct(s.Name + "/ts")
		}()
	}
	wg.Wait()
	c.Programs = len(specs)
}

// tsAgreeJob: the emitted Go parser (go/ssa, gosym) and the emitted TypeScript parser (tsmini)
// run on the same symbolic abstract input inside one path; outcomes must coincide.
func (c *Ctx) tsAgreeJob(g *GenSet, s *corpus.Spec, N int) {
	src, err := os.ReadFile(g.TSPath(s.Name))
	if err != nil {
		c.Inconclusive("%s: %v", s.Name, err)
		return
	}
	prog, err := tsmini.Parse(string(src))
	if err != nil {
		c.Inconclusive("%s: emitted TypeScript is outside the tsmini subset: %v", s.Name, err)
		return
	}
	fn := g.Eng.Func(g.PkgPath(s.Name, "go"), "VerifRunIdx")
	if fn == nil {
		c.Inconclusive("%s: VerifRunIdx not found", s.Name)
		return
	}
	T := len(s.Toks)
	name := fmt.Sprintf("%s go-vs-ts N=%d", s.Name, N)
	cfg := g.Eng.Cfg
	vlog("start %s", name)
	rep := g.Eng.ExploreFunc(name, func(st *gosym.State) {
		idx := make([]*gosym.Term, N)
		val := make([]*gosym.Term, N)
		gi, gv := make(gosym.Slice, N), make(gosym.Slice, N)
		for i := range idx {
			idx[i] = st.Fresh("k", 64)
			st.Assume(gosym.And(gosym.Cmp(gosym.OpSLe, gosym.ConstInt(64, -2), idx[i]), gosym.Cmp(gosym.OpSLt, idx[i], gosym.ConstInt(64, int64(T)))))
			val[i] = st.Fresh("v", 64)
			gi[i], gv[i] = idx[i], val[i]
		}
		res, pi := st.CallFunc(fn, []gosym.Value{gi, gv})
		if pi != nil {
			st.Assert(gosym.False, "C08: the Go parser harness panicked: "+pi.Msg)
			return
		}
		out := res.(gosym.Struct)
		gKind := int(out[0].(*gosym.Term).Int())
		gVal := out[2].(*gosym.Term)
		var gLog []int
		for _, e := range out[3].(gosym.Slice) {
			gLog = append(gLog, int(e.(*gosym.Term).Int()))
		}
		gReq := int(out[4].(*gosym.Term).Int())
		ts, _ := tsRun(st, prog, s, idx, val, true)
		if gKind == 0 {
			st.Cover("accept")
		} else {
			st.Cover("reject")
		}
		B := gosym.BoolT
		st.Assert(B((gKind == 0) == (ts.Kind == 0)), "variants disagree on the verdict (go vs typescript)")
		if gKind == 1 {
			st.Assert(B(ts.Kind == 1), "typescript does not report the syntax error the Go parser reports ("+ts.Msg+")")
		}
		st.Assert(B(gReq == ts.Requests), "variants request a different number of tokens (go vs typescript)")
		same := len(gLog) == len(ts.Log)
		for i := 0; same && i < len(gLog); i++ {
			same = gLog[i] == ts.Log[i]
		}
		st.Assert(B(same), "variants perform different reductions (go vs typescript)")
		if gKind == 0 && ts.Kind == 0 {
			st.Assert(B(ts.ValKnown), "typescript value is not a number")
			if ts.ValKnown {
				st.Assert(gosym.Cmp(gosym.OpEq, gVal, ts.Val), "variants compute different values (go vs typescript)")
			}
		}
	}, &cfg)
	c.absorb(name, rep)
	seen := map[string]bool{}
	for _, v := range rep.Violations {
		key := fmt.Sprintf("C08:%s:go-vs-ts:%s", s.Name, modelKey(v, "k"))
		if seen[key] || len(seen) >= 2 {
			continue
		}
		seen[key] = true
		c.confirmGoVsTS(g, prog, s, v, N, key)
	}
}

// confirmGoVsTS replays one model natively on both sides: go test on the generated package, node on the stripped TS.
func (c *Ctx) confirmGoVsTS(g *GenSet, prog *tsmini.Program, s *corpus.Spec, v gosym.Violation, N int, key string) {
	var idx, vals []int64
	for i := 0; i < N; i++ {
		idx = append(idx, int64(v.Model[fmt.Sprintf("k!%d", i)]))
		vals = append(vals, int64(v.Model[fmt.Sprintf("v!%d", i)]))
	}
	dir := c.Scratch()
	ts, _, err := runNode(dir, prog, s, idx, vals, true)
	if err != nil {
		c.Inconclusive("%s: node replay failed: %v", key, err)
		return
	}
	pkgDir := c.storeGenPkg(g, s.Name, "go")
	rf := ReplayFile{Property: c.ID, Key: key, What: v.What, Entry: "VerifDumpIdx", Args: []int{N},
		Spec: ReplaySpec{Kind: "gen", Gen: map[string]string{"dir": pkgDir}}, Model: modelInts(v), Inputs: v.Syms}
	path := filepath.Join(VerifDir, "replays", c.ID, sanitize(key)+".json")
	WriteJSON(path, rf)
	NativeReplay(&rf, path)
	goLine := ""
	for _, l := range strings.Split(lastReplayOutput, "\n") {
		if strings.HasPrefix(l, "VERIF-OUT ") {
			goLine = strings.TrimPrefix(l, "VERIF-OUT ")
		}
	}
	if goLine == "" {
		c.Inconclusive("%s: native Go replay printed no outcome", key)
		return
	}
	tsVal := "?"
	if ts.ValKnown {
		tsVal = fmt.Sprint(ts.Val.Int())
	}
	tsLine := fmt.Sprintf("%d|%s|%d|%v|", ts.Kind, tsVal, ts.Requests, ts.Log)
	parts := strings.Split(goLine, "|")
	tparts := strings.Split(tsLine, "|")
	differ := parts[0] != tparts[0] && !(parts[0] != "0" && tparts[0] != "0" && parts[0] == "1" && tparts[0] == "1")
	if parts[0] == "1" && tparts[0] != "1" {
		differ = true
	}
	if len(parts) > 3 && (parts[2] != tparts[2] || strings.TrimSpace(parts[3]) != strings.TrimSpace(tparts[3])) {
		differ = true
	}
	if parts[0] == "0" && tparts[0] == "0" && parts[1] != tparts[1] {
		differ = true
	}
	rf.Native = "go: " + goLine + "  typescript(node): " + tsLine
	WriteJSON(path, rf)
	if differ {
		c.Report(key, fmt.Sprintf("Go and TypeScript parsers of grammar %s disagree on abstract input %v: go %s, typescript %s", s.Name, idx, goLine, tsLine), path)
	} else {
		c.Inconclusive("%s: engines found a Go/TypeScript disagreement that the native runs do not show (go %s, ts %s)", key, goLine, tsLine)
	}
}
