package checks

import (
	"encoding/json"
	"flag"
	"fmt"
	"os"
	"strconv"
	"time"
	"verif/tool/gosym"
)

var registry = map[string]func(c *Ctx){}

func register(id string, f func(c *Ctx)) { registry[id] = f }

func RunCmd(argv []string) int {
	if len(argv) < 1 {
		fmt.Println("usage: vcheck run <id> [--tier quick|thorough]")
		return 2
	}
	id := argv[0]
	fs := flag.NewFlagSet("run", flag.ExitOnError)
	tier := fs.String("tier", "", "quick|thorough")
	fs.Parse(argv[1:])
	if *tier == "" {
		*tier = os.Getenv("VERIF_TIER")
	}
	if *tier == "" {
		*tier = "quick"
	}
	seed := int64(1)
	if s := os.Getenv("VERIF_SEED"); s != "" {
		if n, err := strconv.ParseInt(s, 10, 64); err == nil {
			seed = n
		}
	}
	f := registry[id]
	if f == nil {
		fmt.Printf("INCONCLUSIVE no check registered for %s\n", id)
		return 2
	}
	c := &Ctx{ID: id, Tier: *tier, Seed: seed, Start: time.Now(), Level: "model_checking",
		Distinct: map[string]bool{}, Extra: map[string]interface{}{}}
	defer c.cleanup()
	defer gosym.CloseSolvers()
	func() {
		defer func() {
			if r := recover(); r != nil {
				c.Inconclusive("check driver failed: %v", r)
			}
		}()
		f(c)
		if c.Thorough() {
			c.CrossCheck()
		}
	}()
	c.WriteEvidence()
	for _, k := range c.Known {
		_ = k
	}
	switch {
	case len(c.Violations) > 0:
		if c.suppressed > 0 {
			fmt.Printf("  (%d further failing cases were found but not replayed)\n", c.suppressed)
		}
		fmt.Printf("FAIL property=%s violations=%d wall=%.1fs\n", id, len(c.Violations), since(c.Start))
		return 1
	case len(c.Inconcl) > 0:
		for _, m := range c.Inconcl {
			fmt.Printf("INCONCLUSIVE %s\n", m)
		}
		return 2
	}
	fmt.Printf("OK property=%s tier=%s paths=%d queries=%d wall=%.1fs\n", id, *tier, c.evalCount(), c.queryCount(), since(c.Start))
	return 0
}

func (c *Ctx) evalCount() int { return c.Evaluations }
func (c *Ctx) queryCount() int {
	if c.Rep == nil {
		return 0
	}
	return c.Rep.SolverSat + c.Rep.SolverUnsat + c.Rep.SolverUnk
}

func ReplayCmd(argv []string) int {
	if len(argv) < 1 {
		fmt.Println("usage: vcheck replay <path>")
		return 2
	}
	b, err := os.ReadFile(argv[0])
	if err != nil {
		fmt.Println(err)
		return 2
	}
	var rf ReplayFile
	if err := json.Unmarshal(b, &rf); err != nil {
		fmt.Println(err)
		return 2
	}
	status, msg := NativeReplay(&rf, argv[0])
	fmt.Printf("replay %s: %s %s\n", argv[0], status, msg)
	if status == "reproduced" {
		return 1
	}
	return 0
}
