package checks

import (
	"fmt"
	"go/ast"
	"go/parser"
	"go/token"
	"os"
	"os/exec"
	"path/filepath"
	"strconv"
	"strings"
	"time"

	"verif/tool/gosym"
)

func init() { register("C13", C13) }

// BuildCLI builds the real yaccgo command from the current tree into scratch.
func (c *Ctx) BuildCLI() (string, error) {
	dir := c.Scratch()
	bin := filepath.Join(dir, "yaccgo")
	cmd := exec.Command("go", "build", "-o", bin, "./yaccgo")
	cmd.Dir = RepoDir
	cmd.Env = goEnv()
	out, err := runWithTimeout(cmd, 5*time.Minute)
	if err != nil {
		return "", fmt.Errorf("yaccgo CLI does not build: %v: %s", err, tailStr(out, 800))
	}
	return bin, nil
}

// runCLI runs `yaccgo <args>` in a scratch directory under a deadline.
func runCLI(bin, dir string, deadline time.Duration, args ...string) (out string, timedOut bool, err error) {
	cmd := exec.Command(bin, args...)
	cmd.Dir = dir
	o, e := runWithTimeout(cmd, deadline)
	if e != nil && strings.Contains(e.Error(), "timeout") {
		return o, true, e
	}
	return o, false, e
}

var c13Seeds = 24 // keep in step with verifSeed in harness/Parser/zz_verif_text.go

func textFromModel(v gosym.Violation, name string) string {
	var b []byte
	for i := 0; ; i++ {
		x, ok := v.Model[fmt.Sprintf("%s!%d", name, i)]
		if !ok {
			break
		}
		b = append(b, byte(x))
	}
	return string(b)
}

func C13(c *Ctx) {
	c.Level = "model_checking"
	c.Explanation = "C13: the real Lex (goroutine modelled as a coroutine) and Parse run symbolically on texts = concrete seed + L unconstrained ASCII bytes, and the declaration/rule parser runs on streams of N tokens whose Kind is a symbolic choice over all 27 kinds followed by a closed channel; every loop carries an unwinding bound, so a non-terminating path is reported as an unwinding failure, its model is rendered to a file and the real CLI is run on it under a deadline: only a real hang is a violation."
	eng, err := LoadRepo("Parser")
	if err != nil {
		c.Inconclusive("%v", err)
		return
	}
	cli, err := c.BuildCLI()
	if err != nil {
		c.Inconclusive("%v", err)
		return
	}
	c.Harnesses = append(c.Harnesses, "harness/Parser/zz_verif_text.go:VerifLexBytes", "harness/Parser/zz_verif_tokens.go:VerifTokenStream")
	Lall, Lempty, Ntok := 1, 3, 3
	if c.Thorough() {
		Lall, Lempty, Ntok = 2, 4, 4
	}
	c.Bound("byte level: every ASCII string of length <= %d; each of %d seeds (%%union, %%{, /*, //, ', \", {, $, %%token <, %%start, ...) followed by every ASCII string of length <= %d; token level: every stream of <= %d tokens over all 27 kinds then end of stream; loop bound 300 per loop", Lempty, c13Seeds, Lall, Ntok)
	c.Outside = append(c.Outside, "non-ASCII bytes other than the concrete non-ASCII seeds (symbolic bytes are ASCII)", "hangs that need more than the bounded suffix after a seed", "BuildLALR1 and the builders after a successful Parse (decided for corpus grammars by the other checks)", "file I/O of the CLI")
	c.Assumptions = append(c.Assumptions, "coroutine model of the lexer goroutine (control moves at channel operations only)", "utf8/unicode modelled for ASCII")
	type jobT struct{ seed, L int }
	var jobs []jobT
	for L := 0; L <= Lempty; L++ {
		jobs = append(jobs, jobT{0, L})
	}
	for s := 1; s < c13Seeds; s++ {
		for L := 0; L <= Lall; L++ {
			jobs = append(jobs, jobT{s, L})
		}
	}
	hangs := map[string]bool{}
	handle := func(rep *gosym.Report, name string, render func(v gosym.Violation) string) {
		if rep == nil {
			return
		}
		for _, u := range rep.Unwound {
			text := render(u)
			if hangs[text] {
				continue
			}
			hangs[text] = true
			if len(hangs) > 12 {
				continue
			}
			c.confirmHang(cli, text, name)
		}
	}
	for _, j := range jobs {
		job := SymJob{Name: fmt.Sprintf("lex seed=%d L=%d", j.seed, j.L), Eng: eng, PkgPath: RepoModule + "/Parser", Entry: "VerifLexBytes",
			Args: []int{j.seed, j.L}, Replay: ReplaySpec{Kind: "repo", PkgDirs: []string{"Parser"}}, unwindIsFinding: true}
		rep := c.RunSym(job)
		seed := j.seed
		handle(rep, job.Name, func(v gosym.Violation) string { return seedText(seed) + textFromModel(v, "b") })
		c.MarkDistinct(job.Name)
	}
	for n := 0; n <= Ntok; n++ {
		job := SymJob{Name: fmt.Sprintf("token stream N=%d", n), Eng: eng, PkgPath: RepoModule + "/Parser", Entry: "VerifTokenStream",
			Args: []int{n}, Replay: ReplaySpec{Kind: "repo", PkgDirs: []string{"Parser"}}, unwindIsFinding: true}
		rep := c.RunSym(job)
		handle(rep, job.Name, func(v gosym.Violation) string { return kindsText(v) })
		c.MarkDistinct(job.Name)
	}
	// edits and prefixes of well-formed files
	src, err := editHarnessSource(c.Thorough())
	var files []string
	if err == nil {
		files, err = editFiles(src)
	}
	extra := map[string]string{"Parser/zz_verif_files.go": src}
	if err == nil {
		eng, err = LoadRepoExtra(extra, "Parser")
	}
	if err != nil || len(files) < 3 {
		c.Inconclusive("files of the edit harness cannot be read: %v", err)
		return
	}
	c.Harnesses = append(c.Harnesses, "harness/Parser/zz_verif_files.go:VerifEdit", "harness/Parser/zz_verif_files.go:VerifFileParses")
	type editT struct{ file, mode int }
	var edits []editT
	if c.Thorough() {
		for f := range files {
			for m := 0; m <= 6; m++ {
				if f >= 3 && m >= 5 {
					continue // the two example files: one-byte edits only
				}
				edits = append(edits, editT{f, m})
			}
		}
		c.Bound("edit level: %d well-formed files (%d-%d bytes; three of the harness, examples/e.y and examples/ladd.y of the tree); at every position: the byte replaced by any ASCII byte, any ASCII byte inserted, the byte deleted, the file cut there, the file cut there and any ASCII byte appended; for the three harness files also two adjacent bytes replaced by any two ASCII bytes and the file cut with any two ASCII bytes appended; loop bound 4000 per loop", len(files), minLen(files), maxLen(files))
	} else {
		for f := range files {
			for m := 0; m <= 4; m++ {
				edits = append(edits, editT{f, m})
			}
		}
		c.Bound("edit level: %d well-formed files (%d-%d bytes); at every position: the byte replaced by any ASCII byte, any ASCII byte inserted, the byte deleted, the file cut there, the file cut there and any ASCII byte appended; loop bound 4000 per loop", len(files), minLen(files), maxLen(files))
	}
	c.Outside = append(c.Outside, "edits of more than one byte and edits of other files than the "+strconv.Itoa(len(files))+" of the harness")
	accepted := map[int]bool{}
	for f := range files {
		job := SymJob{Name: fmt.Sprintf("file %d is well-formed", f), Eng: eng, PkgPath: RepoModule + "/Parser", Entry: "VerifFileParses",
			Args: []int{f}, Replay: ReplaySpec{Kind: "repo", PkgDirs: []string{"Parser"}, Extra: extra}}
		if rep := c.RunSym(job); rep != nil && rep.Covers["file parses"] > 0 {
			accepted[f] = true
		} else {
			c.Outside = append(c.Outside, fmt.Sprintf("edits of file %d of the edit harness: this tree does not read the file as well-formed (its edits would only explore diagnostics)", f))
		}
	}
	if len(accepted) == 0 {
		c.Inconclusive("no file of the edit harness is read as well-formed by this tree")
		return
	}
	modeName := []string{"replace", "cut+append", "insert", "delete", "cut", "replace two", "cut+append two"}
	for _, e := range edits {
		e := e
		if !accepted[e.file] {
			continue
		}
		job := SymJob{Name: fmt.Sprintf("edit file=%d %s", e.file, modeName[e.mode]), Eng: eng, PkgPath: RepoModule + "/Parser", Entry: "VerifEdit",
			Args: []int{e.file, e.mode}, Replay: ReplaySpec{Kind: "repo", PkgDirs: []string{"Parser"}, Extra: extra}, unwindIsFinding: true}
		rep := c.RunSym(job)
		handle(rep, job.Name, func(v gosym.Violation) string { return editText(files[e.file], e.mode, v) })
		c.MarkDistinct(job.Name)
	}
	c.NeedCovers("terminated", "parsed", "diagnostic")
}

// editHarnessSource returns the text of the edit harness; the thorough tier adds two example
// grammars of the tree under test to its list of files (ASCII ones only).
func editHarnessSource(thorough bool) (string, error) {
	b, err := os.ReadFile(filepath.Join(VerifDir, "harness", "Parser", "zz_verif_files.go"))
	if err != nil {
		return "", err
	}
	src := string(b)
	if !thorough {
		return src, nil
	}
	var lits []string
	for _, name := range []string{"e.y", "ladd.y"} {
		t, err := os.ReadFile(filepath.Join(RepoDir, "examples", name))
		if err != nil || len(t) > 1500 {
			continue
		}
		ascii := true
		for _, ch := range t {
			if ch >= 0x80 {
				ascii = false
			}
		}
		if ascii {
			lits = append(lits, "\t"+strconv.Quote(string(t))+",")
		}
	}
	i := strings.Index(src, "\t// EXTRA-FILES")
	if i < 0 {
		return "", fmt.Errorf("marker EXTRA-FILES not found")
	}
	return src[:i] + strings.Join(lits, "\n") + "\n" + src[i:], nil
}

// editFiles reads the string literals of verifFiles from the harness source (one copy only).
func editFiles(src string) ([]string, error) {
	fset := token.NewFileSet()
	f, err := parser.ParseFile(fset, "zz_verif_files.go", src, 0)
	if err != nil {
		return nil, err
	}
	var out []string
	ast.Inspect(f, func(n ast.Node) bool {
		vs, ok := n.(*ast.ValueSpec)
		if !ok || len(vs.Names) != 1 || vs.Names[0].Name != "verifFiles" || len(vs.Values) != 1 {
			return true
		}
		if cl, ok := vs.Values[0].(*ast.CompositeLit); ok {
			for _, e := range cl.Elts {
				if bl, ok := e.(*ast.BasicLit); ok {
					if s, err := strconv.Unquote(bl.Value); err == nil {
						out = append(out, s)
					}
				}
			}
		}
		return false
	})
	return out, nil
}

func minLen(xs []string) int {
	m := len(xs[0])
	for _, x := range xs {
		if len(x) < m {
			m = len(x)
		}
	}
	return m
}

func maxLen(xs []string) int {
	m := 0
	for _, x := range xs {
		if len(x) > m {
			m = len(x)
		}
	}
	return m
}

// editText renders the input of VerifEdit from a model (position and byte).
func editText(f string, mode int, v gosym.Violation) string {
	pos := int(v.Model["pos!0"])
	b := string([]byte{byte(v.Model["b!0"])})
	if mode >= 5 {
		b += string([]byte{byte(v.Model["b!1"])})
	}
	if pos < 0 || pos > len(f) {
		return f
	}
	switch mode {
	case 0:
		if pos < len(f) {
			return f[:pos] + b + f[pos+1:]
		}
	case 1:
		return f[:pos] + b
	case 2:
		return f[:pos] + b + f[pos:]
	case 3:
		if pos < len(f) {
			return f[:pos] + f[pos+1:]
		}
	case 4:
		return f[:pos]
	case 5:
		if pos+2 <= len(f) {
			return f[:pos] + b + f[pos+2:]
		}
	case 6:
		return f[:pos] + b
	}
	return f
}

var seedTexts = []string{"", "%union", "%{", "/*", "//", "'", "\"", "{", "$", "%token <", "%token", "%start", "%type", "%left", "%%", "%token A\n%%\nA:", "%%\nA : B %prec", "%token <t> A 'c'\n%type <t> B\n%start B\n%%\nB: A {x} |",
	"\u0663", "%token A\n\u0663", "\u00e9", "%token \u00e9", "\xff", "%%\nA: '\u00e9"}

func seedText(i int) string {
	if i < 0 || i >= len(seedTexts) {
		return ""
	}
	return seedTexts[i]
}

// kindTexts renders one token of each Kind (index = position in verifKinds of the harness).
var kindTexts = []string{
	"", // EOF: end of text
	"@", "abc", "12", "%%", "%{ x %}", "{ y }", "%type", "%token", "%union { u }", "%left", "%right", "%nonassoc", "%prec", "%precedence", "%start",
	"$$", "$1", "$accept", "$end", "|", ":", ";", "<", ">", "'c'", "\"s\"",
}

func kindsText(v gosym.Violation) string {
	var parts []string
	for i := 0; ; i++ {
		x, ok := v.Model[fmt.Sprintf("kind!%d", i)]
		if !ok {
			break
		}
		if int(x)+2 < len(kindTexts) {
			parts = append(parts, kindTexts[x+2])
		}
	}
	if v.Model["last!0"] == 1 {
		parts = append(parts, "@")
	}
	return strings.Join(parts, " ")
}

// confirmHang runs the real CLI on text; a run that does not finish within the deadline is a violation.
func (c *Ctx) confirmHang(cli, text, job string) {
	dir := c.Scratch()
	in := filepath.Join(dir, "in.y")
	os.WriteFile(in, []byte(text), 0o644)
	key := fmt.Sprintf("hang:%q", text)
	for _, args := range [][]string{{"generate", "go", in, filepath.Join(dir, "out.go")}, {"debug", in}} {
		_, timedOut, _ := runCLI(cli, dir, 10*time.Second, args...)
		if timedOut {
			path := filepath.Join(VerifDir, "replays", c.ID, sanitize(key)+".json")
			WriteJSON(path, map[string]interface{}{"property": c.ID, "key": key, "kind": "cli-hang", "input_text": text,
				"what": "yaccgo " + args[0] + " does not terminate on this input", "replay": "write input_text to in.y; timeout 10 yaccgo " + strings.Join(args[:len(args)-1], " ") + " in.y ..."})
			c.Report(key, fmt.Sprintf("yaccgo %s does not terminate on input %q (deadline 10 s)", args[0], text), path)
			return
		}
	}
	c.Inconclusive("%s: unwinding bound hit on input %q but the native CLI terminates: bound too small", job, text)
}
