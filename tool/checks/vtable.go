package checks

import (
	"fmt"
	"os"
	"regexp"
	"strconv"
	"strings"
	"time"

	"verif/tool/corpus"
	"verif/tool/gosym"
)

var tableRowRe = regexp.MustCompile(`(?m)^/\* (\d+) \*/ \{([^}]*)\},`)

// emittedTable parses the dense StateActionArray out of an emitted -u parser file.
func emittedTable(path string) ([][]int, error) {
	b, err := os.ReadFile(path)
	if err != nil {
		return nil, err
	}
	var tab [][]int
	for _, m := range tableRowRe.FindAllStringSubmatch(string(b), -1) {
		var row []int
		for _, f := range strings.Split(m[2], ",") {
			f = strings.TrimSpace(f)
			if f == "" {
				continue
			}
			n, err := strconv.Atoi(f)
			if err != nil {
				return nil, fmt.Errorf("table cell %q", f)
			}
			row = append(row, n)
		}
		tab = append(tab, row)
	}
	if len(tab) == 0 {
		return nil, fmt.Errorf("no StateActionArray rows found in %s", path)
	}
	return tab, nil
}

// vTable decides, for inputs of ANY length, that the emitted dense table is a table of the
// LALR(1) automaton: every non-error cell is a transition / an LALR(1) reduction / the accept
// (soundness premise), and - when wantComplete - every candidate action has its cell
// (completeness premise for conflict-free grammars). The automaton (states, gotos) and the
// table come from one generation run; the lookaheads are the Horn model's own.
func (c *Ctx) vTable(s *corpus.Spec, d *Dump, table [][]int, wantSound, wantComplete bool, dir string) {
	h := NewHorn()
	GrammarFacts(h, d)
	LALRSpec(h)
	h.Rel("cellShift", 3)
	h.Rel("cellRed", 3)
	h.Rel("cellAcc", 2)
	h.Rel("cellErr", 2)
	h.Rel("nzRule", 1)
	for r := 1; r < len(d.Rules); r++ {
		h.Fact("nzRule", r)
	}
	if len(table) != len(d.States) {
		c.Inconclusive("%s: emitted table has %d rows for %d states", s.Name, len(table), len(d.States))
		return
	}
	cells := 0
	for q, row := range table {
		for x, v := range row {
			cells++
			switch {
			case v == d.ErrorCode:
				h.Fact("cellErr", q, x)
			case v == d.AcceptCode:
				h.Fact("cellAcc", q, x)
			case v > 0:
				h.Fact("cellShift", q, x, v)
			case v < 0:
				h.Fact("cellRed", q, x, -v)
			default:
				h.Fact("cellRed", q, x, 0) // a zero cell is never legitimate
			}
		}
	}
	var queries []string
	if wantSound {
		h.Rel("badShift", 3)
		h.Rel("badRed", 3)
		h.Rel("badAcc", 2)
		h.Rule("(badShift q x q2)", "(cellShift q x q2)", "(not (goto q x q2))")
		h.Rule("(badRed q t r)", "(cellRed q t r)", "(not (la q r t))")
		h.Rule("(badRed q t r)", "(cellRed q t r)", "(not (nzRule r))")
		h.Rule("(badAcc q t)", "(cellAcc q t)", "(not (la q #x000 t))")
		queries = append(queries, "badShift", "badRed", "badAcc")
	}
	if wantComplete {
		h.Rel("missingCell", 2)
		h.Rule("(missingCell q x)", "(goto q x q2)", "(cellErr q x)")
		h.Rule("(missingCell q t)", "(la q r t)", "(cellErr q t)")
		queries = append(queries, "missingCell")
	}
	for _, q := range queries {
		h.Query(q)
	}
	res, err := h.Run("/usr/bin/z3", dir, 120*time.Second)
	if err != nil {
		c.Inconclusive("%s: %v", s.Name, err)
		return
	}
	c.hornStats(h, res, len(queries))
	c.addExtraInt("vtable_cells", cells)
	c.addExtraInt("vtable_grammars", 1)
	for _, q := range queries {
		for i, t := range res.Tuples[q] {
			if i >= 2 {
				break
			}
			var what string
			switch q {
			case "badShift":
				what = fmt.Sprintf("cell (%s, %s) shifts to state %d which is not the automaton's transition", d.stateText(t[0]), d.symName(t[1]), t[2])
			case "badRed":
				what = fmt.Sprintf("cell (%s, %s) reduces by '%s' although %s is not an LALR(1) lookahead of that reduction there", d.stateText(t[0]), d.symName(t[1]), d.ruleText(t[2]), d.symName(t[1]))
			case "badAcc":
				what = fmt.Sprintf("cell (%s, %s) accepts although the start rule is not complete there with that lookahead", d.stateText(t[0]), d.symName(t[1]))
			case "missingCell":
				what = fmt.Sprintf("cell (%s, %s) is an error although the LALR(1) automaton has an action there", d.stateText(t[0]), d.symName(t[1]))
			}
			key := "vtable:" + s.Name + ":" + what
			what = "emitted table of grammar " + s.Name + ": " + what
			path := c.writeHornReplay(s, q, key, what, YRes{})
			c.Report(key, what, path)
		}
	}
}

// vTableAll generates packed/unpacked pairs for the specs and validates every emitted dense table.
// The table is read by loading the emitted -u file and evaluating its StateActionArray in the
// engine (independent of how the generator formats the text).
func (c *Ctx) vTableAll(y *YGen, specs []*corpus.Spec, wantSound, wantComplete bool) {
	g, err := c.Generate(y, specs, []string{"pair-p", "pair-u"}, nil)
	if err != nil {
		c.Inconclusive("%v", err)
		return
	}
	dir := c.Scratch()
	for _, s := range g.Specs {
		r := g.Results[genKey(s.Name, "pair-p")]
		if !r.OK || r.Dump == nil {
			c.Inconclusive("generation failed for corpus grammar %s: %s%s", s.Name, r.Err, r.Panic)
			continue
		}
		fn := g.Eng.Func(g.PkgPath(s.Name, "pair-u"), "VerifDenseTable")
		if fn == nil {
			c.Inconclusive("%s: VerifDenseTable not found", s.Name)
			continue
		}
		var tab [][]int
		cfg := g.Eng.Cfg
		cfg.Workers = 1
		cfg.SamplePaths = 0
		rep := g.Eng.ExploreFunc(s.Name+" dense table", func(st *gosym.State) {
			res, pi := st.CallFunc(fn, nil)
			if pi != nil {
				return
			}
			for _, row := range res.(gosym.Slice) {
				var rr []int
				for _, v := range row.(gosym.Slice) {
					rr = append(rr, int(v.(*gosym.Term).Int()))
				}
				tab = append(tab, rr)
			}
		}, &cfg)
		if len(rep.Problems) > 0 || len(tab) == 0 {
			c.Inconclusive("%s: could not evaluate the emitted table: %v", s.Name, rep.Problems)
			continue
		}
		c.vTable(s, r.Dump, tab, wantSound, wantComplete && s.HasTag("lalr1"), dir)
	}
}

// classifyLALR tags every spec whose Horn LALR(1) model has no conflict cell as "lalr1"
// (random grammars carry no classification of their own).
func (c *Ctx) classifyLALR(y *YGen, specs []*corpus.Spec) {
	var todo []*corpus.Spec
	for _, s := range specs {
		if s.HasTag("random") && !s.HasTag("lalr1") && !s.HasTag("conflict") {
			todo = append(todo, s)
		}
	}
	if len(todo) == 0 {
		return
	}
	dumps, err := c.DumpAll(y, todo)
	if err != nil {
		c.Inconclusive("%v", err)
		return
	}
	dir := c.Scratch()
	for _, s := range todo {
		r := dumps[s.Name]
		if !r.OK || r.Dump == nil {
			continue
		}
		h := NewHorn()
		GrammarFacts(h, r.Dump)
		LALRSpec(h)
		h.Rel("conflictCell", 2)
		h.Rule("(conflictCell q t)", "(goto q t q2)", "(term t)", "(la q r t)")
		h.Rule("(conflictCell q t)", "(la q r t)", "(la q r2 t)", "(rlt r r2)")
		h.Query("conflictCell")
		res, err := h.Run("/usr/bin/z3", dir, 60*time.Second)
		if err != nil {
			continue
		}
		if !res.Sat["conflictCell"] {
			s.Tags = append(s.Tags, "lalr1")
		} else {
			s.Tags = append(s.Tags, "conflict")
		}
	}
}

// resolutionOracle (C04): in the emitted dense table every cell with exactly two candidate
// actions holds the action the declarations demand: higher level wins, equal level follows
// the associativity, no applicable precedence: shift resp. the earlier rule.
func (c *Ctx) resolutionOracle(s *corpus.Spec, d *Dump, table [][]int, dir string) {
	h := NewHorn()
	GrammarFacts(h, d)
	LALRSpec(h)
	for _, rel := range []string{"cellShift", "cellRed"} {
		h.Rel(rel, 3)
	}
	h.Rel("cellErr", 2)
	h.Rel("cellAcc", 2)
	for q, row := range table {
		for x, v := range row {
			switch {
			case v == d.ErrorCode:
				h.Fact("cellErr", q, x)
			case v == d.AcceptCode:
				h.Fact("cellAcc", q, x)
			case v > 0:
				h.Fact("cellShift", q, x, v)
			case v < 0:
				h.Fact("cellRed", q, x, -v)
			}
		}
	}
	tokPrec, tokAssoc, rulePrec := specPrec(s)
	// comparison facts between every rule and every terminal that both have a level
	for _, rel := range []string{"rgt", "rlt2", "reqL", "reqR", "reqN", "noPrec"} {
		h.Rel(rel, 2)
	}
	for k := 1; k < len(rulePrec); k++ {
		for ref, lvl := range tokPrec {
			id := d.symByRef(ref)
			if id < 0 {
				continue
			}
			switch {
			case rulePrec[k] == 0 || lvl == 0:
			case rulePrec[k] > lvl:
				h.Fact("rgt", k, id)
			case rulePrec[k] < lvl:
				h.Fact("rlt2", k, id)
			default:
				switch tokAssoc[ref] {
				case "left":
					h.Fact("reqL", k, id)
				case "right":
					h.Fact("reqR", k, id)
				default:
					h.Fact("reqN", k, id)
				}
			}
		}
	}
	// noPrec(r,t): the pair has no applicable precedence
	for k := 1; k < len(rulePrec); k++ {
		for _, sym := range d.Symbols {
			if sym.IsNT || sym.ID < 1 {
				continue
			}
			lvl := 0
			for ref, l := range tokPrec {
				if d.symByRef(ref) == sym.ID {
					lvl = l
				}
			}
			if rulePrec[k] == 0 || lvl == 0 {
				h.Fact("noPrec", k, sym.ID)
			}
		}
	}
	h.Rel("precRule", 1)
	for k := 1; k < len(rulePrec); k++ {
		if rulePrec[k] > 0 {
			h.Fact("precRule", k)
		}
	}
	h.Rel("shiftc", 3)
	h.Rel("sr", 4)
	h.Rel("rr", 4)
	h.Rel("multi", 2)
	h.Rule("(shiftc q t q2)", "(goto q t q2)", "(term t)")
	h.Rule("(sr q t r q2)", "(shiftc q t q2)", "(la q r t)")
	h.Rule("(rr q t r r2)", "(la q r t)", "(la q r2 t)", "(rlt r r2)")
	h.Rule("(multi q t)", "(shiftc q t q2)", "(rr q t r r2)")
	h.Rule("(multi q t)", "(rr q t r r2)", "(rr q t r2 x)")
	h.Rel("wrong", 2)
	// shift/reduce
	h.Rule("(wrong q t)", "(sr q t r q2)", "(not (multi q t))", "(rgt r t)", "(not (cellRed q t r))")
	h.Rule("(wrong q t)", "(sr q t r q2)", "(not (multi q t))", "(rlt2 r t)", "(not (cellShift q t q2))")
	h.Rule("(wrong q t)", "(sr q t r q2)", "(not (multi q t))", "(reqL r t)", "(not (cellRed q t r))")
	h.Rule("(wrong q t)", "(sr q t r q2)", "(not (multi q t))", "(reqR r t)", "(not (cellShift q t q2))")
	h.Rule("(wrong q t)", "(sr q t r q2)", "(not (multi q t))", "(reqN r t)", "(not (cellErr q t))")
	h.Rule("(wrong q t)", "(sr q t r q2)", "(not (multi q t))", "(noPrec r t)", "(not (cellShift q t q2))")
	// reduce/reduce: the earlier rule (precedence is defined between a rule and a token only)
	h.Rule("(wrong q t)", "(rr q t r r2)", "(not (multi q t))", "(not (cellRed q t r))")
	h.Rel("twoWay", 2)
	h.Rule("(twoWay q t)", "(sr q t r q2)", "(not (multi q t))")
	h.Rule("(twoWay q t)", "(rr q t r r2)", "(not (multi q t))")
	// cells with three or more candidates: the pairwise rules of the statement define a
	// tournament; when one candidate beats every other one (a Condorcet winner - then every
	// order of pairwise resolution, yacc's included, ends with it) the cell must hold it.
	// Cells without such a candidate stay outside the claim.
	h.Rel("redBeatsShift", 3)
	h.Rel("shiftBeatsRed", 3)
	h.Rule("(redBeatsShift q t r)", "(sr q t r q2)", "(rgt r t)")
	h.Rule("(redBeatsShift q t r)", "(sr q t r q2)", "(reqL r t)")
	h.Rule("(shiftBeatsRed q t r)", "(sr q t r q2)", "(rlt2 r t)")
	h.Rule("(shiftBeatsRed q t r)", "(sr q t r q2)", "(reqR r t)")
	h.Rule("(shiftBeatsRed q t r)", "(sr q t r q2)", "(noPrec r t)")
	h.Rel("redBeatsRed", 4)
	h.Rule("(redBeatsRed q t r r2)", "(rr q t r r2)")
	h.Rel("redLoses", 3)
	h.Rule("(redLoses q t r)", "(sr q t r q2)", "(not (redBeatsShift q t r))")
	h.Rule("(redLoses q t r)", "(rr q t r r2)", "(not (redBeatsRed q t r r2))")
	h.Rule("(redLoses q t r)", "(rr q t r2 r)")
	h.Rel("shiftLoses", 2)
	h.Rule("(shiftLoses q t)", "(sr q t r q2)", "(not (shiftBeatsRed q t r))")
	h.Rel("multiDecided", 2)
	h.Rule("(multiDecided q t)", "(multi q t)", "(la q r t)", "(not (redLoses q t r))")
	h.Rule("(multiDecided q t)", "(multi q t)", "(shiftc q t q2)", "(not (shiftLoses q t))")
	h.Rule("(wrong q t)", "(multi q t)", "(la q r t)", "(not (redLoses q t r))", "(not (cellRed q t r))")
	h.Rule("(wrong q t)", "(multi q t)", "(shiftc q t q2)", "(not (shiftLoses q t))", "(not (cellShift q t q2))")
	h.Query("wrong")
	h.Query("twoWay")
	h.Query("multiDecided")
	res, err := h.Run("/usr/bin/z3", dir, 120*time.Second)
	if err != nil {
		c.Inconclusive("%s: %v", s.Name, err)
		return
	}
	c.hornStats(h, res, 1)
	c.addExtraInt("two_way_conflict_cells_decided", len(res.Tuples["twoWay"]))
	c.addExtraInt("multi_way_conflict_cells_decided", len(res.Tuples["multiDecided"]))
	if len(res.Tuples["twoWay"]) > 0 {
		c.MarkDistinct("resolution " + s.Name)
	}
	for i, t := range res.Tuples["wrong"] {
		if i >= 2 {
			break
		}
		cell := "?"
		if t[0] < len(table) && t[1] < len(table[t[0]]) {
			cell = fmt.Sprint(table[t[0]][t[1]])
		}
		what := fmt.Sprintf("grammar %s: the conflict in state %s on %s is not resolved the way the declarations demand (table entry %s)", s.Name, d.stateText(t[0]), d.symName(t[1]), cell)
		key := "resolution:" + s.Name + ":" + d.stateText(t[0]) + ":" + d.symName(t[1])
		path := c.writeHornReplay(s, "resolution", key, what, YRes{})
		c.Report(key, what, path)
	}
}

// resolutionAll runs the resolution oracle over grammars with precedence declarations.
func (c *Ctx) resolutionAll(y *YGen, specs []*corpus.Spec) {
	var withPrec []*corpus.Spec
	for _, s := range specs {
		if len(s.Prec) > 0 || s.HasTag("conflict-sr") || s.HasTag("conflict-rr") {
			withPrec = append(withPrec, s)
		}
	}
	if len(withPrec) == 0 {
		return
	}
	g, err := c.Generate(y, withPrec, []string{"pair-p", "pair-u"}, nil)
	if err != nil {
		c.Inconclusive("%v", err)
		return
	}
	dir := c.Scratch()
	for _, s := range g.Specs {
		r := g.Results[genKey(s.Name, "pair-p")]
		if !r.OK || r.Dump == nil {
			continue
		}
		tab := c.denseTable(g, s)
		if tab == nil {
			continue
		}
		c.resolutionOracle(s, r.Dump, tab, dir)
	}
}

// denseTable evaluates the emitted StateActionArray of the pair-u package in the engine.
func (c *Ctx) denseTable(g *GenSet, s *corpus.Spec) [][]int {
	fn := g.Eng.Func(g.PkgPath(s.Name, "pair-u"), "VerifDenseTable")
	if fn == nil {
		c.Inconclusive("%s: VerifDenseTable not found", s.Name)
		return nil
	}
	var tab [][]int
	cfg := g.Eng.Cfg
	cfg.Workers = 1
	cfg.SamplePaths = 0
	rep := g.Eng.ExploreFunc(s.Name+" dense table", func(st *gosym.State) {
		res, pi := st.CallFunc(fn, nil)
		if pi != nil {
			return
		}
		for _, row := range res.(gosym.Slice) {
			var rr []int
			for _, v := range row.(gosym.Slice) {
				rr = append(rr, int(v.(*gosym.Term).Int()))
			}
			tab = append(tab, rr)
		}
	}, &cfg)
	if len(rep.Problems) > 0 || len(tab) == 0 {
		c.Inconclusive("%s: could not evaluate the emitted table: %v", s.Name, rep.Problems)
		return nil
	}
	return tab
}
