package checks

import (
	"fmt"
	"os"
	"regexp"
	"strconv"
	"strings"
	"time"

	"verif/tool/corpus"
	"verif/tool/gosym"
)

var tableRowRe = regexp.MustCompile(`(?m)^/\* (\d+) \*/ \{([^}]*)\},`)

// emittedTable parses the dense StateActionArray out of an emitted -u parser file.
func emittedTable(path string) ([][]int, error) {
	b, err := os.ReadFile(path)
	if err != nil {
		return nil, err
	}
	var tab [][]int
	for _, m := range tableRowRe.FindAllStringSubmatch(string(b), -1) {
		var row []int
		for _, f := range strings.Split(m[2], ",") {
			f = strings.TrimSpace(f)
			if f == "" {
				continue
			}
			n, err := strconv.Atoi(f)
			if err != nil {
				return nil, fmt.Errorf("table cell %q", f)
			}
			row = append(row, n)
		}
		tab = append(tab, row)
	}
	if len(tab) == 0 {
		return nil, fmt.Errorf("no StateActionArray rows found in %s", path)
	}
	return tab, nil
}

// vTable decides, for inputs of ANY length, that the emitted dense table is a table of the
// LALR(1) automaton: every non-error cell is a transition / an LALR(1) reduction / the accept
// (soundness premise), and - when wantComplete - every candidate action has its cell
// (completeness premise for conflict-free grammars). The automaton (states, gotos) and the
// table come from one generation run; the lookaheads are the Horn model's own.
func (c *Ctx) vTable(s *corpus.Spec, d *Dump, table [][]int, wantSound, wantComplete bool, dir string) {
	h := NewHorn()
	GrammarFacts(h, d)
	LALRSpec(h)
	h.Rel("cellShift", 3)
	h.Rel("cellRed", 3)
	h.Rel("cellAcc", 2)
	h.Rel("cellErr", 2)
	h.Rel("nzRule", 1)
	for r := 1; r < len(d.Rules); r++ {
		h.Fact("nzRule", r)
	}
	if len(table) != len(d.States) {
		c.Inconclusive("%s: emitted table has %d rows for %d states", s.Name, len(table), len(d.States))
		return
	}
	cells := 0
	for q, row := range table {
		for x, v := range row {
			cells++
			switch {
			case v == d.ErrorCode:
				h.Fact("cellErr", q, x)
			case v == d.AcceptCode:
				h.Fact("cellAcc", q, x)
			case v > 0:
				h.Fact("cellShift", q, x, v)
			case v < 0:
				h.Fact("cellRed", q, x, -v)
			default:
				h.Fact("cellRed", q, x, 0) // a zero cell is never legitimate
			}
		}
	}
	var queries []string
	if wantSound {
		h.Rel("badShift", 3)
		h.Rel("badRed", 3)
		h.Rel("badAcc", 2)
		h.Rule("(badShift q x q2)", "(cellShift q x q2)", "(not (goto q x q2))")
		h.Rule("(badRed q t r)", "(cellRed q t r)", "(not (la q r t))")
		h.Rule("(badRed q t r)", "(cellRed q t r)", "(not (nzRule r))")
		h.Rule("(badAcc q t)", "(cellAcc q t)", "(not (la q #x000 t))")
		queries = append(queries, "badShift", "badRed", "badAcc")
	}
	if wantComplete {
		h.Rel("missingCell", 2)
		h.Rule("(missingCell q x)", "(goto q x q2)", "(cellErr q x)")
		h.Rule("(missingCell q t)", "(la q r t)", "(cellErr q t)")
		queries = append(queries, "missingCell")
	}
	for _, q := range queries {
		h.Query(q)
	}
	res, err := h.Run("/usr/bin/z3", dir, 120*time.Second)
	if err != nil {
		c.Inconclusive("%s: %v", s.Name, err)
		return
	}
	c.hornStats(h, res, len(queries))
	c.addExtraInt("vtable_cells", cells)
	c.addExtraInt("vtable_grammars", 1)
	for _, q := range queries {
		for i, t := range res.Tuples[q] {
			if i >= 2 {
				break
			}
			var what string
			switch q {
			case "badShift":
				what = fmt.Sprintf("cell (%s, %s) shifts to state %d which is not the automaton's transition", d.stateText(t[0]), d.symName(t[1]), t[2])
			case "badRed":
				what = fmt.Sprintf("cell (%s, %s) reduces by '%s' although %s is not an LALR(1) lookahead of that reduction there", d.stateText(t[0]), d.symName(t[1]), d.ruleText(t[2]), d.symName(t[1]))
			case "badAcc":
				what = fmt.Sprintf("cell (%s, %s) accepts although the start rule is not complete there with that lookahead", d.stateText(t[0]), d.symName(t[1]))
			case "missingCell":
				what = fmt.Sprintf("cell (%s, %s) is an error although the LALR(1) automaton has an action there", d.stateText(t[0]), d.symName(t[1]))
			}
			key := "vtable:" + s.Name + ":" + what
			what = "emitted table of grammar " + s.Name + ": " + what
			path := c.writeHornReplay(s, q, key, what, YRes{})
			c.Report(key, what, path)
		}
	}
}

// vTableAll generates packed/unpacked pairs for the specs and validates every emitted dense table.
// The table is read by loading the emitted -u file and evaluating its StateActionArray in the
// engine (independent of how the generator formats the text).
func (c *Ctx) vTableAll(y *YGen, specs []*corpus.Spec, wantSound, wantComplete bool) {
	g, err := c.Generate(y, specs, []string{"pair-p", "pair-u"}, nil)
	if err != nil {
		c.Inconclusive("%v", err)
		return
	}
	dir := c.Scratch()
	for _, s := range g.Specs {
		r := g.Results[genKey(s.Name, "pair-p")]
		if !r.OK || r.Dump == nil {
			c.Inconclusive("generation failed for corpus grammar %s: %s%s", s.Name, r.Err, r.Panic)
			continue
		}
		fn := g.Eng.Func(g.PkgPath(s.Name, "pair-u"), "VerifDenseTable")
		if fn == nil {
			c.Inconclusive("%s: VerifDenseTable not found", s.Name)
			continue
		}
		var tab [][]int
		cfg := g.Eng.Cfg
		cfg.Workers = 1
		cfg.SamplePaths = 0
		rep := g.Eng.ExploreFunc(s.Name+" dense table", func(st *gosym.State) {
			res, pi := st.CallFunc(fn, nil)
			if pi != nil {
				return
			}
			for _, row := range res.(gosym.Slice) {
				var rr []int
				for _, v := range row.(gosym.Slice) {
					rr = append(rr, int(v.(*gosym.Term).Int()))
				}
				tab = append(tab, rr)
			}
		}, &cfg)
		if len(rep.Problems) > 0 || len(tab) == 0 {
			c.Inconclusive("%s: could not evaluate the emitted table: %v", s.Name, rep.Problems)
			continue
		}
		c.vTable(s, r.Dump, tab, wantSound, wantComplete && s.HasTag("lalr1"), dir)
	}
}
