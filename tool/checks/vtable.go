package checks

import (
	"fmt"
	"os"
	"regexp"
	"strconv"
	"strings"
	"time"

	"verif/tool/corpus"
)

var tableRowRe = regexp.MustCompile(`(?m)^/\* (\d+) \*/ \{([^}]*)\},`)

// emittedTable parses the dense StateActionArray out of an emitted -u parser file.
func emittedTable(path string) ([][]int, error) {
	b, err := os.ReadFile(path)
	if err != nil {
		return nil, err
	}
	var tab [][]int
	for _, m := range tableRowRe.FindAllStringSubmatch(string(b), -1) {
		var row []int
		for _, f := range strings.Split(m[2], ",") {
			f = strings.TrimSpace(f)
			if f == "" {
				continue
			}
			n, err := strconv.Atoi(f)
			if err != nil {
				return nil, fmt.Errorf("table cell %q", f)
			}
			row = append(row, n)
		}
		tab = append(tab, row)
	}
	if len(tab) == 0 {
		return nil, fmt.Errorf("no StateActionArray rows found in %s", path)
	}
	return tab, nil
}

// vTable decides, for inputs of ANY length, that the emitted dense table is a table of the
// LALR(1) automaton: every non-error cell is a transition / an LALR(1) reduction / the accept
// (soundness premise), and - when wantComplete - every candidate action has its cell
// (completeness premise for conflict-free grammars). The automaton (states, gotos) and the
// table come from one generation run; the lookaheads are the Horn model's own.
func (c *Ctx) vTable(s *corpus.Spec, d *Dump, table [][]int, wantSound, wantComplete bool, dir string) {
	h := NewHorn()
	GrammarFacts(h, d)
	LALRSpec(h)
	h.Rel("cellShift", 3)
	h.Rel("cellRed", 3)
	h.Rel("cellAcc", 2)
	h.Rel("cellErr", 2)
	h.Rel("nzRule", 1)
	for r := 1; r < len(d.Rules); r++ {
		h.Fact("nzRule", r)
	}
	if len(table) != len(d.States) {
		c.Inconclusive("%s: emitted table has %d rows for %d states", s.Name, len(table), len(d.States))
		return
	}
	cells := 0
	for q, row := range table {
		for x, v := range row {
			cells++
			switch {
			case v == d.ErrorCode:
				h.Fact("cellErr", q, x)
			case v == d.AcceptCode:
				h.Fact("cellAcc", q, x)
			case v > 0:
				h.Fact("cellShift", q, x, v)
			case v < 0:
				h.Fact("cellRed", q, x, -v)
			default:
				h.Fact("cellRed", q, x, 0) // a zero cell is never legitimate
			}
		}
	}
	var queries []string
	if wantSound {
		h.Rel("badShift", 3)
		h.Rel("badRed", 3)
		h.Rel("badAcc", 2)
		h.Rule("(badShift q x q2)", "(cellShift q x q2)", "(not (goto q x q2))")
		h.Rule("(badRed q t r)", "(cellRed q t r)", "(not (la q r t))")
		h.Rule("(badRed q t r)", "(cellRed q t r)", "(not (nzRule r))")
		h.Rule("(badAcc q t)", "(cellAcc q t)", "(not (la q #x000 t))")
		queries = append(queries, "badShift", "badRed", "badAcc")
	}
	if wantComplete {
		h.Rel("missingCell", 2)
		h.Rule("(missingCell q x)", "(goto q x q2)", "(cellErr q x)")
		h.Rule("(missingCell q t)", "(la q r t)", "(cellErr q t)")
		queries = append(queries, "missingCell")
	}
	for _, q := range queries {
		h.Query(q)
	}
	res, err := h.Run("/usr/bin/z3", dir, 120*time.Second)
	if err != nil {
		c.Inconclusive("%s: %v", s.Name, err)
		return
	}
	c.hornStats(h, res, len(queries))
	c.addExtraInt("vtable_cells", cells)
	c.addExtraInt("vtable_grammars", 1)
	for _, q := range queries {
		for i, t := range res.Tuples[q] {
			if i >= 2 {
				break
			}
			var what string
			switch q {
			case "badShift":
				what = fmt.Sprintf("cell (%s, %s) shifts to state %d which is not the automaton's transition", d.stateText(t[0]), d.symName(t[1]), t[2])
			case "badRed":
				what = fmt.Sprintf("cell (%s, %s) reduces by '%s' although %s is not an LALR(1) lookahead of that reduction there", d.stateText(t[0]), d.symName(t[1]), d.ruleText(t[2]), d.symName(t[1]))
			case "badAcc":
				what = fmt.Sprintf("cell (%s, %s) accepts although the start rule is not complete there with that lookahead", d.stateText(t[0]), d.symName(t[1]))
			case "missingCell":
				what = fmt.Sprintf("cell (%s, %s) is an error although the LALR(1) automaton has an action there", d.stateText(t[0]), d.symName(t[1]))
			}
			key := "vtable:" + s.Name + ":" + what
			what = "emitted table of grammar " + s.Name + ": " + what
			path := c.writeHornReplay(s, q, key, what, YRes{})
			c.Report(key, what, path)
		}
	}
}

// vTableAll generates packed/unpacked pairs for the specs and validates every emitted dense table.
func (c *Ctx) vTableAll(y *YGen, specs []*corpus.Spec, wantSound, wantComplete bool) {
	dir := c.Scratch()
	var jobs []YJob
	for _, s := range specs {
		jobs = append(jobs, YJob{Name: s.Name, Text: s.GoText(), Variant: "pair",
			Out: fmt.Sprintf("%s/%s-p.go", dir, s.Name), Out2: fmt.Sprintf("%s/%s-u.go", dir, s.Name)})
	}
	res, err := y.Run(jobs, 10*time.Minute)
	if err != nil {
		c.Inconclusive("%v", err)
		return
	}
	for i, r := range res {
		s := specs[i]
		if !r.OK || r.Dump == nil {
			c.Inconclusive("generation failed for corpus grammar %s: %s%s", s.Name, r.Err, r.Panic)
			continue
		}
		tab, err := emittedTable(fmt.Sprintf("%s/%s-u.go", dir, s.Name))
		if err != nil {
			c.Inconclusive("%s: %v", s.Name, err)
			continue
		}
		c.vTable(s, r.Dump, tab, wantSound, wantComplete && s.HasTag("lalr1"), dir)
	}
}
