package checks

import (
	"fmt"
	"sync"
)

func init() {
	register("C15", C15)
	register("C17", C17)
	register("C11", C11)
}

func runGenEntry(c *Ctx, tag, entry string, args []int, variants []string, need []string, specsFilter func(name string) bool) {
	y, err := c.BuildYGen()
	if err != nil {
		c.Inconclusive("%v", err)
		return
	}
	specs := gCorpus(c, 0)
	if specsFilter != nil {
		var f = specs[:0:0]
		for _, s := range specs {
			if specsFilter(s.Name) {
				f = append(f, s)
			}
		}
		specs = f
	}
	g, err := c.Generate(y, specs, variants, nil)
	if err != nil {
		c.Inconclusive("%v", err)
		return
	}
	var wg sync.WaitGroup
	sem := make(chan struct{}, 4)
	for _, s := range specs {
		for _, v := range variants {
			s, v := s, v
			wg.Add(1)
			sem <- struct{}{}
			go func() {
				defer wg.Done()
				defer func() { <-sem }()
				job := c.GenJob(g, s, v, entry, args, tag)
				c.RunSym(job)
				c.MarkDistinct(s.Name + "/" + v)
			}()
		}
	}
	wg.Wait()
	c.NeedCovers(need...)
	c.Programs = len(specs)
	c.Extra["grammars"] = len(specs)
	c.Extra["variants"] = variants
}

func C15(c *Ctx) {
	nx, ny := 2, 2
	if c.Thorough() {
		nx, ny = 3, 3
	}
	c.Explanation = "C15: histories executed symbolically in the emitted parser: parse y from the pristine state, parse x (any outcome), ParserInit(), parse y again (global mode); fresh context vs. used-and-reinitialised context vs. a second context (object mode). Both inputs are sequences of unconstrained int64 token codes; outcomes (verdict, requests, reductions, value term) must be equal, decided by Z3 per path."
	c.Bound("x: %d tokens, y: %d tokens, arbitrary int64 codes and values; histories [y, x, init, y] and [init, init, y]; all four Go variants", nx, ny)
	c.Outside = append(c.Outside, "longer histories than three parses (no inductive reset step registered)", "real thread-level concurrency (only sequential interleaving of whole parses on distinct contexts)", "TypeScript variant")
	c.Harnesses = append(c.Harnesses, "generated zz_verif_spec.go:VerifHistory")
	runGenEntry(c, "C15", "VerifHistory", []int{nx, ny}, GoVariants, []string{"after-accept", "after-reject"}, nil)
	c.Bound("interleaving: a complete parse of y on a second context inside the k-th reduction (k symbolic) of a parse of x; object-mode variants")
	c.Harnesses = append(c.Harnesses, "generated zz_verif_spec.go:VerifInterleave")
	c.Explanation += " Interleaving on distinct contexts is explored at the granularity of semantic actions: the harness starts a complete parse on a fresh context from inside a solver-chosen reduction of another parse and requires both outcomes to equal the solo runs; the set of package-level variables written during an object-mode parse is recorded as a note."
	runGenEntry(c, "C15", "VerifInterleave", []int{nx + 1, ny}, []string{"go-o", "go-o-u"}, []string{"interleaved"}, nil)
}

func C17(c *Ctx) {
	N := 3
	if c.Thorough() {
		N = 5
	}
	c.Explanation = "C17: the emitted parser runs symbolically with IsTrace=true; fmt.Printf records are collected by the engine's output sink and parsed by the harness: every line must be a shift/goto push or a reduction, in the order performed, with the exact rule text of the rule the action logged, the lookahead that triggered it, and every push must be a transition Action(top, symbol) of the table in the same file."
	c.Bound("all token strings of length <= %d over arbitrary int64 codes; Go variants go and go -o (packed) and their -u forms", N)
	c.Outside = append(c.Outside, "inputs longer than N", "--httpdebug tracing")
	c.Harnesses = append(c.Harnesses, "harness/gen/ref.go.txt:VerifTrace")
	runGenEntry(c, "C17", "VerifTrace", []int{N}, GoVariants, []string{"shift-line", "reduce-line", "goto-line", "accept", "reject"}, nil)
}

func C11(c *Ctx) {
	c.Explanation = "C11-G: for each corpus grammar (including auto-numbered, explicitly numbered, literal, %left-only and rule-only tokens) translate(c) of the emitted file is executed for an unconstrained int64 c and compared with the declared token set; token codes are pairwise distinct and differ from -1; the error symbol is an error action in every state."
	c.Bound("every int64 code c; all corpus grammars; all four Go variants")
	c.Outside = append(c.Outside, "TypeScript variant", "token declaration mixes outside the corpus (see C11-U in DESIGN.md)")
	c.Harnesses = append(c.Harnesses, "harness/gen/ref.go.txt:VerifTranslate")
	runGenEntry(c, "C11", "VerifTranslate", nil, GoVariants, []string{"token", "eof", "other"}, nil)
	// U: the numbering pass itself with symbolic explicit numbers
	eng, err := LoadRepo("Parser")
	if err != nil {
		c.Inconclusive("%v", err)
		return
	}
	kmax := 3
	if c.Thorough() {
		kmax = 4
	}
	c.Harnesses = append(c.Harnesses, "harness/Parser/zz_verif_toknum.go:VerifTokenNumbers")
	c.Bound("C11-U: astDeclareVistor.Process on up to %d named token declarations (names chosen by the solver from {A,B,C,D}, redeclarations included) with symbolic explicit numbers in [-3,130] (0 = automatic), two character literals and a %%type name", kmax)
	c.Assumptions = append(c.Assumptions, "the user's explicit numbers are pairwise distinct, differ from the literal codes used and from -1, and a token is given at most one explicit number")
	c.Explanation += " C11-U: the numbering pass astDeclareVistor.Process runs symbolically on declaration lists whose explicit token numbers are solver variables; all terminal codes must be pairwise distinct, different from -1, explicit numbers and literal codes kept."
	for k := 1; k <= kmax; k++ {
		c.RunSym(SymJob{Name: fmt.Sprintf("token numbers k=%d", k), Eng: eng, PkgPath: RepoModule + "/Parser", Entry: "VerifTokenNumbers",
			Args: []int{k}, Replay: ReplaySpec{Kind: "repo", PkgDirs: []string{"Parser"}}})
	}
	c.NeedCovers("pair", "explicit")
}
