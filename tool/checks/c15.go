package checks

import (
	"fmt"
	"os"
	"os/exec"
	"path/filepath"
	"strings"
	"sync"
	"time"

	"verif/tool/corpus"
	"verif/tool/gosym"
	"verif/tool/tsmini"
)

func init() {
	register("C15", C15)
	register("C17", C17)
	register("C11", C11)
}

func runGenEntry(c *Ctx, tag, entry string, args []int, variants []string, need []string, specsFilter func(name string) bool) {
	runGenEntryX(c, tag, entry, args, variants, need, specsFilter, nil)
}

// runGenEntryX: as runGenEntry, with extra harness files (the step harness on request).
func runGenEntryX(c *Ctx, tag, entry string, args []int, variants []string, need []string, specsFilter func(name string) bool, extra map[string]string) {
	y, err := c.BuildYGen()
	if err != nil {
		c.Inconclusive("%v", err)
		return
	}
	specs := gCorpus(c, 0)
	if specsFilter != nil {
		var f = specs[:0:0]
		for _, s := range specs {
			if specsFilter(s.Name) {
				f = append(f, s)
			}
		}
		specs = f
	}
	g, err := c.Generate(y, specs, variants, extra)
	if err != nil {
		c.Inconclusive("%v", err)
		return
	}
	specs = g.Specs
	if extra != nil && g.NoStep != "" {
		c.Outside = append(c.Outside, entry+" not established on this tree (the harness writes the driver's stack variables by name and they changed: "+g.NoStep+")")
		return
	}
	var wg sync.WaitGroup
	sem := make(chan struct{}, 4)
	for _, s := range specs {
		for _, v := range variants {
			s, v := s, v
			wg.Add(1)
			sem <- struct{}{}
			go func() {
				defer wg.Done()
				defer func() { <-sem }()
				job := c.GenJob(g, s, v, entry, args, tag)
				c.RunSym(job)
				c.MarkDistinct(s.Name + "/" + v)
			}()
		}
	}
	wg.Wait()
	c.NeedCovers(need...)
	c.Programs = len(specs)
	c.Extra["grammars"] = len(specs)
	c.Extra["variants"] = variants
}

func C15(c *Ctx) {
	nx, ny := 2, 2
	if c.Thorough() {
		nx, ny = 3, 2 // 3+3 took 70 minutes
	}
	c.Explanation = "C15: histories executed symbolically in the emitted parser: parse y from the pristine state, parse x (any outcome), ParserInit(), parse y again (global mode); fresh context vs. used-and-reinitialised context vs. a second context (object mode). Both inputs are sequences of unconstrained int64 token codes; outcomes (verdict, requests, reductions, value term) must be equal, decided by Z3 per path."
	c.Bound("x: %d tokens, y: %d tokens, arbitrary int64 codes and values; histories [y, x, init, y] and [init, init, y]; all four Go variants", nx, ny)
	c.Outside = append(c.Outside, "longer histories than three parses (no inductive reset step registered)", "real thread-level concurrency (only sequential interleaving of whole parses on distinct contexts)", "TypeScript variant")
	c.Harnesses = append(c.Harnesses, "generated zz_verif_spec.go:VerifHistory")
	small := func(name string) bool {
		if c.Thorough() {
			// the two grammars with the most viable prefixes square the path count at 3+3 tokens
			return name != "stmts12" && name != "len10"
		}
		return (name != "stmts12" && name != "len10" && name != "prec_mixed" && name != "redecl" && !strings.HasPrefix(name, "rich_"))
	}
	runGenEntry(c, "C15", "VerifHistory", []int{nx, ny}, GoVariants, []string{"after-accept", "after-reject"}, small)
	c.Bound("interleaving: a complete parse of y inside the k-th reduction (k symbolic) of a parse of x - on a second context (object mode), between PushContex() and PopContex() (global mode)")
	c.Harnesses = append(c.Harnesses, "generated zz_verif_spec.go:VerifInterleave")
	c.Explanation += " Interleaving on distinct contexts is explored at the granularity of semantic actions: the harness starts a complete parse on a fresh context from inside a solver-chosen reduction of another parse and requires both outcomes to equal the solo runs; the set of package-level variables written during an object-mode parse is recorded as a note."
	iv := []string{"go", "go-o"} // the two driver texts: nested through PushContex/PopContex resp. on a second context
	ix := nx + 1
	if c.Thorough() {
		ix = nx // 3+2 (4+2 on four variants did not finish within an hour)
	}
	runGenEntry(c, "C15", "VerifInterleave", []int{ix, ny}, iv, []string{"interleaved"}, small)
	// induction step for histories of any length: from arbitrary stack contents
	D := 3
	if c.Thorough() {
		D = 4
	}
	c.Bound("reset step: above the bottom entry the stack variables hold any contents (stack pointer 1..%d, slice length up to %d, entries with state 1 or the last state and arbitrary values), then ParserInit(), then a parse of y (%d tokens): same outcome as from the pristine state; with the write footprint of a parse (only these variables) this extends the bounded histories to histories of any length whose parses stay within that depth", D, D, ny)
	c.Harnesses = append(c.Harnesses, "harness/gen/step.go.txt:VerifResetStep")
	rv := GoVariants
	if !c.Thorough() {
		rv = []string{"go", "go-o"} // the two driver texts; the -u forms differ in Action only
	}
	runGenEntryX(c, "C15", "VerifResetStep", []int{D, ny}, rv, []string{"reset"}, small, map[string]string{"zz_verif_step.go": stepSentinel})
	c15TS(c, nx, ny)
}

func C17(c *Ctx) {
	N := 3
	if c.Thorough() {
		N = 5
	}
	c.Explanation = "C17: the emitted parser runs symbolically with IsTrace=true; fmt.Printf records are collected by the engine's output sink and parsed by the harness: every line must be a shift/goto push or a reduction, in the order performed, with the exact rule text of the rule the action logged, the lookahead that triggered it, and every push must be a transition Action(top, symbol) of the table in the same file."
	c.Bound("all token strings of length <= %d over arbitrary int64 codes; Go variants go and go -o (packed) and their -u forms", N)
	c.Outside = append(c.Outside, "inputs longer than N", "--httpdebug tracing")
	c.Harnesses = append(c.Harnesses, "harness/gen/ref.go.txt:VerifTrace")
	logged := func(name string) bool { return name != "copy_actions" } // every reduction must log itself
	runGenEntry(c, "C17", "VerifTrace", []int{N}, GoVariants, []string{"shift-line", "reduce-line", "goto-line", "accept", "reject"}, logged)
	// two contexts: the trace of one parse with another context parsing inside one of its reductions
	c.Harnesses = append(c.Harnesses, "generated zz_verif_spec.go:VerifTraceNested")
	nv, nyT, nxT := []string{"go-o"}, 1, 2
	if c.Thorough() {
		nv, nyT, nxT = []string{"go-o", "go-o-u"}, 2, 3
	}
	c.Bound("trace with a nested parse on another context inside a solver-chosen reduction (object mode): x %d tokens, y %d tokens; the outer lines must equal the solo trace", nxT, nyT)
	nestedSet := func(name string) bool {
		return logged(name) && (c.Thorough() || (name != "stmts12" && name != "len10" && name != "prec_mixed" && name != "redecl" && !strings.HasPrefix(name, "rich_") && !strings.HasPrefix(name, "rand_")))
	}
	runGenEntry(c, "C17", "VerifTraceNested", []int{nxT, nyT}, nv, []string{"trace-nested"}, nestedSet)
	if c.Rep != nil && c.Rep.Covers["unparsed-line"] > 0 {
		c.Inconclusive("the trace contains lines in a format the harness does not know (%d paths): the wording of the trace changed; the check cannot decide", c.Rep.Covers["unparsed-line"])
	}
}

func C11(c *Ctx) {
	c.Explanation = "C11-G: for each corpus grammar (including auto-numbered, explicitly numbered, literal, %left-only and rule-only tokens) translate(c) of the emitted file is executed for an unconstrained int64 c and compared with the declared token set; token codes are pairwise distinct and differ from -1; the error symbol is an error action in every state."
	c.Bound("every int64 code c; all corpus grammars; all four Go variants and the TypeScript variant (tsmini)")
	c.Outside = append(c.Outside, "token declaration mixes outside the corpus and outside the bound of C11-U")
	c.Harnesses = append(c.Harnesses, "harness/gen/ref.go.txt:VerifTranslate")
	runGenEntry(c, "C11", "VerifTranslate", nil, GoVariants, []string{"token", "eof", "other"}, nil)
	c11TS(c)
	// U: the numbering pass itself with symbolic explicit numbers
	eng, err := LoadRepo("Parser")
	if err != nil {
		c.Inconclusive("%v", err)
		return
	}
	kmax := 3
	if c.Thorough() {
		kmax = 4
	}
	c.Harnesses = append(c.Harnesses, "harness/Parser/zz_verif_toknum.go:VerifTokenNumbers")
	c.Bound("C11-U: astDeclareVistor.Process on up to %d named token declarations (names chosen by the solver from {A,B,C,D}, redeclarations included) with symbolic explicit numbers in [-3,130] (0 = automatic), two character literals and a %%type name", kmax)
	c.Assumptions = append(c.Assumptions, "the user's explicit numbers are pairwise distinct, differ from the literal codes used and from -1, and a token is given at most one explicit number")
	c.Explanation += " C11-U: the numbering pass astDeclareVistor.Process runs symbolically on declaration lists whose explicit token numbers are solver variables; all terminal codes must be pairwise distinct, different from -1, explicit numbers and literal codes kept."
	for k := 1; k <= kmax; k++ {
		c.RunSym(SymJob{Name: fmt.Sprintf("token numbers k=%d", k), Eng: eng, PkgPath: RepoModule + "/Parser", Entry: "VerifTokenNumbers",
			Args: []int{k}, Replay: ReplaySpec{Kind: "repo", PkgDirs: []string{"Parser"}}})
	}
	c.NeedCovers("pair", "explicit")
}

// c11TS: translate() and the token constants of the emitted TypeScript file, for any integer code.
func c11TS(c *Ctx) {
	y, err := c.BuildYGen()
	if err != nil {
		c.Inconclusive("%v", err)
		return
	}
	specs := gCorpus(c, 0)
	g, err := c.Generate(y, specs, []string{"go", "ts"}, nil)
	if err != nil {
		c.Inconclusive("%v", err)
		return
	}
	specs = g.AllSpecs
	for _, s := range specs {
		src, err := os.ReadFile(g.TSPath(s.Name))
		if err != nil {
			c.Inconclusive("%s: %v", s.Name, err)
			continue
		}
		prog, err := tsmini.Parse(string(src))
		if err != nil {
			c.Inconclusive("%s: emitted TypeScript is outside the tsmini subset: %v", s.Name, err)
			continue
		}
		s := s
		name := s.Name + "/ts translate"
		cfg := g.Eng.Cfg
		rep := g.Eng.ExploreFunc(name, func(st *gosym.State) {
			var in *tsmini.Interp
			var id tsmini.Value
			code := st.Fresh("c", 64)
			func() {
				defer func() {
					if r := recover(); r != nil {
						switch x := r.(type) {
						case *tsmini.Throw:
							st.Assert(gosym.False, "C11: translate() of the TypeScript file throws: "+x.Msg)
						case tsmini.Unsupported:
							st.End("unsupported", "tsmini: "+x.What)
						default:
							panic(r)
						}
					}
				}()
				in = tsmini.New(st, prog)
				id = in.Call("translate", code)
			}()
			if in == nil || id == nil {
				return
			}
			idT, ok := id.(*gosym.Term)
			st.Assert(gosym.BoolT(ok), "C11: translate() of the TypeScript file does not return a number")
			if !ok {
				return
			}
			codes := tsCodes(in, s)
			cv := st.Simp(code)
			known := false
			for i, cd := range codes {
				st.Assert(gosym.BoolT(cd != -1 && cd != -99), "C11: a token constant is missing or equals the end marker [typescript]")
				for _, other := range codes[i+1:] {
					st.Assert(gosym.BoolT(cd != other), "C11: two terminals share one code [typescript]")
				}
				if cv.IsConst() && cv.Int() == cd {
					known = true
					st.Cover("token")
					// the symbol id must be that of the same terminal in the table header: ids 2.. are terminals in
					// an order fixed by the generator; at least it must be a terminal id different from 0 and 1
					st.Assert(gosym.And(gosym.Not(gosym.Cmp(gosym.OpEq, idT, gosym.ConstInt(64, 0))), gosym.Not(gosym.Cmp(gosym.OpEq, idT, gosym.ConstInt(64, 1)))), "C11: a token code is translated to the error symbol or the end marker [typescript]")
				}
			}
			if cv.IsConst() && cv.Int() == -1 {
				st.Cover("eof")
				st.Assert(gosym.Cmp(gosym.OpEq, idT, gosym.ConstInt(64, 1)), "C11: -1 is not translated to the end marker [typescript]")
			} else if !known {
				st.Cover("other")
				st.Assert(gosym.Cmp(gosym.OpEq, idT, gosym.ConstInt(64, 0)), "C11: an integer that is no token code is not translated to the error symbol [typescript]")
			}
		}, &cfg)
		c.absorb(name, rep)
		for i, v := range rep.Violations {
			if i >= 2 {
				break
			}
			key := fmt.Sprintf("C11:%s:ts:%s:c=%d", s.Name, v.What, int64(v.Model["c!0"]))
			path := filepath.Join(VerifDir, "replays", c.ID, sanitize(key)+".json")
			dir := c.Scratch()
			js := prog.StripTypes() + fmt.Sprintf("\nconsole.log('VERIF-TR ' + translate(%d));\n", int64(v.Model["c!0"]))
			os.WriteFile(filepath.Join(dir, "t.js"), []byte(js), 0o644)
			out, _ := runWithTimeout(exec.Command("node", filepath.Join(dir, "t.js")), 20*time.Second)
			WriteJSON(path, map[string]interface{}{"property": c.ID, "key": key, "what": v.What, "grammar": s.Name, "code": int64(v.Model["c!0"]), "node_output": tailStr(out, 300), "grammar_text": s.TSText()})
			if strings.Contains(out, "VERIF-TR") || strings.Contains(out, "Error") {
				c.Report(key, v.What+fmt.Sprintf(" (grammar %s, code %d, node: %s)", s.Name, int64(v.Model["c!0"]), strings.TrimSpace(tailStr(out, 80))), path)
			} else {
				c.Inconclusive("%s: node replay failed", key)
			}
		}
		c.MarkDistinct(s.Name + "/ts")
	}
}

// c15TS: the emitted TypeScript parser: parse x, initialize(), parse y must equal y on a fresh parser.
func c15TS(c *Ctx, nx, ny int) {
	y, err := c.BuildYGen()
	if err != nil {
		c.Inconclusive("%v", err)
		return
	}
	specs := gCorpus(c, 0)
	g, err := c.Generate(y, specs, []string{"go", "ts"}, nil)
	if err != nil {
		c.Inconclusive("%v", err)
		return
	}
	c.Bound("TypeScript: history [x, initialize(), y] against y on a freshly loaded parser, x: %d and y: %d symbolic tokens (tsmini)", nx, ny)
	for _, s := range g.Specs {
		src, err := os.ReadFile(g.TSPath(s.Name))
		if err != nil {
			c.Inconclusive("%s: %v", s.Name, err)
			continue
		}
		prog, err := tsmini.Parse(string(src))
		if err != nil {
			c.Inconclusive("%s: emitted TypeScript is outside the tsmini subset: %v", s.Name, err)
			continue
		}
		s := s
		name := fmt.Sprintf("%s/ts history %d+%d", s.Name, nx, ny)
		cfg := g.Eng.Cfg
		rep := g.Eng.ExploreFunc(name, func(st *gosym.State) {
			mk := func(n int, tag string) ([]*gosym.Term, []*gosym.Term) {
				t, v := make([]*gosym.Term, n), make([]*gosym.Term, n)
				for i := range t {
					t[i], v[i] = st.Fresh("c"+tag, 64), st.Fresh("v"+tag, 64)
				}
				return t, v
			}
			yt, yv := mk(ny, "y")
			xt, xv := mk(nx, "x")
			fresh, _ := tsRun(st, prog, s, yt, yv, false)
			mid, in2 := tsRun(st, prog, s, xt, xv, false)
			if in2 == nil {
				return
			}
			if mid.Kind == 0 {
				st.Cover("after-accept")
			} else {
				st.Cover("after-reject")
			}
			func() {
				defer func() {
					if r := recover(); r != nil {
						if th, ok := r.(*tsmini.Throw); ok {
							st.Assert(gosym.False, "C15: initialize() throws after a parse [typescript]: "+th.Msg)
							return
						}
						panic(r)
					}
				}()
				in2.Call("initialize")
			}()
			again := tsRunOn(st, in2, s, yt, yv, false)
			B := gosym.BoolT
			st.Assert(B(fresh.Kind == again.Kind), "C15: verdict depends on an earlier parse [typescript]")
			st.Assert(B(fresh.Requests == again.Requests), "C15: request count depends on an earlier parse [typescript]")
			same := len(fresh.Log) == len(again.Log)
			for i := 0; same && i < len(fresh.Log); i++ {
				same = fresh.Log[i] == again.Log[i]
			}
			st.Assert(B(same), "C15: reductions depend on an earlier parse [typescript]")
			if fresh.Kind == 0 && again.Kind == 0 && fresh.ValKnown && again.ValKnown {
				st.Assert(gosym.Cmp(gosym.OpEq, fresh.Val, again.Val), "C15: value depends on an earlier parse [typescript]")
			}
		}, &cfg)
		c.absorb(name, rep)
		for i, v := range rep.Violations {
			if i >= 1 {
				break
			}
			// TS histories are reported from the engine's model after a node replay of both runs
			key := fmt.Sprintf("C15:%s:ts:%s", s.Name, v.What)
			c.confirmTSHistory(prog, s, v, nx, ny, key)
		}
		c.MarkDistinct(s.Name + "/ts-history")
	}
}

func (c *Ctx) confirmTSHistory(prog *tsmini.Program, s *corpus.Spec, v gosym.Violation, nx, ny int, key string) {
	get := func(tag string, n int) ([]int64, []int64) {
		var t, vv []int64
		for i := 0; i < n; i++ {
			t = append(t, int64(v.Model[fmt.Sprintf("c%s!%d", tag, i)]))
			vv = append(vv, int64(v.Model[fmt.Sprintf("v%s!%d", tag, i)]))
		}
		return t, vv
	}
	yt, yv := get("y", ny)
	xt, xv := get("x", nx)
	dir := c.Scratch()
	run := func(t, vv []int64) string {
		return fmt.Sprintf(`(function(){ verifTok=%s; verifVal=%s; verifLog=[]; verifRequests=0; let logged=false; const ce=console.error; console.error=function(){logged=true}; let o={}; try { const r=Parser(verifInputText()); o.k=(r===null||r===undefined)?(logged?1:4):0; if(o.k===0){o.v=JSON.stringify(r)} } catch(e){ o.k=3 } console.error=ce; o.log=verifLog; o.req=verifRequests; return JSON.stringify(o) })()`, jsArr(t), jsArr(vv))
	}
	js := prog.StripTypes() + "\nconst A = " + run(yt, yv) + ";\n"
	js2 := prog.StripTypes() + "\n" + run(xt, xv) + ";\ninitialize();\nconst B = " + run(yt, yv) + ";\n"
	os.WriteFile(filepath.Join(dir, "a.js"), []byte(js+"console.log('VERIF-H '+A)\n"), 0o644)
	os.WriteFile(filepath.Join(dir, "b.js"), []byte(js2+"console.log('VERIF-H '+B)\n"), 0o644)
	oa, _ := runWithTimeout(exec.Command("node", filepath.Join(dir, "a.js")), 30*time.Second)
	ob, _ := runWithTimeout(exec.Command("node", filepath.Join(dir, "b.js")), 30*time.Second)
	pick := func(o string) string {
		for _, l := range strings.Split(o, "\n") {
			if strings.HasPrefix(l, "VERIF-H ") {
				return l[8:]
			}
		}
		return ""
	}
	a, b := pick(oa), pick(ob)
	path := filepath.Join(VerifDir, "replays", c.ID, sanitize(key)+".json")
	WriteJSON(path, map[string]interface{}{"property": c.ID, "key": key, "what": v.What, "grammar": s.Name, "x": xt, "y": yt, "fresh": a, "after_history": b, "grammar_text": s.TSText()})
	if a == "" || b == "" {
		c.Inconclusive("%s: node replay failed", key)
		return
	}
	if a != b {
		c.Report(key, fmt.Sprintf("%s — grammar %s: y=%v gives %s on a fresh parser but %s after parsing x=%v and initialize()", v.What, s.Name, yt, a, b, xt), path)
	} else {
		c.Inconclusive("%s: tsmini found a history dependence that node does not reproduce", key)
	}
}
