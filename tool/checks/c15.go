package checks

import (
	"sync"
)

func init() {
	register("C15", C15)
	register("C17", C17)
	register("C11", C11)
}

func runGenEntry(c *Ctx, tag, entry string, args []int, variants []string, need []string, specsFilter func(name string) bool) {
	y, err := c.BuildYGen()
	if err != nil {
		c.Inconclusive("%v", err)
		return
	}
	specs := gCorpus(c, 0)
	if specsFilter != nil {
		var f = specs[:0:0]
		for _, s := range specs {
			if specsFilter(s.Name) {
				f = append(f, s)
			}
		}
		specs = f
	}
	g, err := c.Generate(y, specs, variants, nil)
	if err != nil {
		c.Inconclusive("%v", err)
		return
	}
	var wg sync.WaitGroup
	sem := make(chan struct{}, 4)
	for _, s := range specs {
		for _, v := range variants {
			s, v := s, v
			wg.Add(1)
			sem <- struct{}{}
			go func() {
				defer wg.Done()
				defer func() { <-sem }()
				job := c.GenJob(g, s, v, entry, args, tag)
				c.RunSym(job)
				c.MarkDistinct(s.Name + "/" + v)
			}()
		}
	}
	wg.Wait()
	c.NeedCovers(need...)
	c.Programs = len(specs)
	c.Extra["grammars"] = len(specs)
	c.Extra["variants"] = variants
}

func C15(c *Ctx) {
	nx, ny := 2, 2
	if c.Thorough() {
		nx, ny = 3, 3
	}
	c.Explanation = "C15: histories executed symbolically in the emitted parser: parse y from the pristine state, parse x (any outcome), ParserInit(), parse y again (global mode); fresh context vs. used-and-reinitialised context vs. a second context (object mode). Both inputs are sequences of unconstrained int64 token codes; outcomes (verdict, requests, reductions, value term) must be equal, decided by Z3 per path."
	c.Bound("x: %d tokens, y: %d tokens, arbitrary int64 codes and values; histories [y, x, init, y] and [init, init, y]; all four Go variants", nx, ny)
	c.Outside = append(c.Outside, "longer histories than three parses (no inductive reset step registered)", "real thread-level concurrency (only sequential interleaving of whole parses on distinct contexts)", "TypeScript variant")
	c.Harnesses = append(c.Harnesses, "generated zz_verif_spec.go:VerifHistory")
	runGenEntry(c, "C15", "VerifHistory", []int{nx, ny}, GoVariants, []string{"after-accept", "after-reject"}, nil)
}

func C17(c *Ctx) {
	N := 3
	if c.Thorough() {
		N = 5
	}
	c.Explanation = "C17: the emitted parser runs symbolically with IsTrace=true; fmt.Printf records are collected by the engine's output sink and parsed by the harness: every line must be a shift/goto push or a reduction, in the order performed, with the exact rule text of the rule the action logged, the lookahead that triggered it, and every push must be a transition Action(top, symbol) of the table in the same file."
	c.Bound("all token strings of length <= %d over arbitrary int64 codes; Go variants go and go -o (packed) and their -u forms", N)
	c.Outside = append(c.Outside, "inputs longer than N", "--httpdebug tracing")
	c.Harnesses = append(c.Harnesses, "harness/gen/ref.go.txt:VerifTrace")
	runGenEntry(c, "C17", "VerifTrace", []int{N}, GoVariants, []string{"shift-line", "reduce-line", "goto-line", "accept", "reject"}, nil)
}

func C11(c *Ctx) {
	c.Explanation = "C11-G: for each corpus grammar (including auto-numbered, explicitly numbered, literal, %left-only and rule-only tokens) translate(c) of the emitted file is executed for an unconstrained int64 c and compared with the declared token set; token codes are pairwise distinct and differ from -1; the error symbol is an error action in every state."
	c.Bound("every int64 code c; all corpus grammars; all four Go variants")
	c.Outside = append(c.Outside, "TypeScript variant", "token declaration mixes outside the corpus (see C11-U in DESIGN.md)")
	c.Harnesses = append(c.Harnesses, "harness/gen/ref.go.txt:VerifTranslate")
	runGenEntry(c, "C11", "VerifTranslate", nil, GoVariants, []string{"token", "eof", "other"}, nil)
}
