package checks

import (
	"fmt"
	"time"

	"verif/tool/corpus"
)

func init() { register("C09", C09) }

// LR0Spec adds the characterisation of the canonical LR(0) collection over yaccgo's
// dumped states (relation in/3) and transitions (goto/3).
func LR0Spec(h *Horn) []string {
	for _, r := range []string{"kern", "clo", "missingItem", "extraItem"} {
		h.Rel(r, 3)
	}
	h.Rel("kernOf", 4)
	h.Rel("need", 2)
	h.Rel("has", 2)
	h.Rel("reach", 1)
	// closure of each state's kernel
	h.Rule("(clo q r d)", "(in q r d)", "(posdot d)")
	h.Rule("(clo #x000 #x000 #x000)")
	h.Rule("(clo q r2 #x000)", "(clo q r d)", "(at r d b)", "(lhs r2 b)")
	h.Rule("(missingItem q r d)", "(state q)", "(clo q r d)", "(not (in q r d))")
	h.Rule("(extraItem q r d)", "(in q r d)", "(not (clo q r d))")
	// state 0 has no kernel item besides the augmented start item
	h.Rel("badStart", 2)
	h.Rule("(badStart r d)", "(in #x000 r d)", "(posdot d)")
	// goto(q,X) leads to the state whose kernel is exactly the advanced items
	h.Rule("(kernOf q x r d1)", "(in q r d)", "(at r d x)", "(succ d d1)")
	h.Rel("kernMissing", 4)
	h.Rel("kernExtra", 4)
	h.Rule("(kernMissing q x r d)", "(goto q x q2)", "(kernOf q x r d)", "(not (in q2 r d))")
	h.Rule("(kernExtra q x r d)", "(goto q x q2)", "(in q2 r d)", "(posdot d)", "(not (kernOf q x r d))")
	// a transition on X exists iff some item has X after the dot; at most one per (q,X)
	h.Rule("(need q x)", "(in q r d)", "(at r d x)")
	h.Rule("(has q x)", "(goto q x q2)")
	h.Rel("transMissing", 2)
	h.Rel("transExtra", 2)
	h.Rel("transDouble", 2)
	h.Rule("(transMissing q x)", "(need q x)", "(not (has q x))")
	h.Rule("(transExtra q x)", "(has q x)", "(not (need q x))")
	h.Rule("(transDouble q x)", "(goto q x q2)", "(goto q x q3)", "(neq q2 q3)")
	// no two states with the same item set
	h.Rel("differ", 2)
	h.Rel("duplicate", 2)
	h.Rule("(differ a b)", "(in a r d)", "(state b)", "(not (in b r d))")
	h.Rule("(duplicate a b)", "(neq a b)", "(not (differ a b))", "(not (differ b a))")
	// every state reachable from state 0; transitions stay inside the state set
	h.Rule("(reach #x000)")
	h.Rule("(reach q2)", "(reach q)", "(goto q x q2)")
	h.Rel("unreachable", 1)
	h.Rule("(unreachable q)", "(state q)", "(not (reach q))")
	h.Rel("dangling", 3)
	h.Rule("(dangling q x q2)", "(goto q x q2)", "(not (state q2))")
	return []string{"missingItem", "extraItem", "badStart", "kernMissing", "kernExtra", "transMissing", "transExtra", "transDouble", "duplicate", "unreachable", "dangling"}
}

func C09(c *Ctx) {
	c.Level = "translation_validation"
	c.Explanation = "C09 (Mode V): the real generator runs natively per grammar and dumps its item sets and GoTo transitions; Z3's datalog engine decides, against Horn rules that characterise the canonical LR(0) collection (closure of each kernel, kernel of goto(q,X) = advanced items of q on X for every predecessor, a transition exists iff a symbol follows a dot, determinism, no duplicate item sets, reachability from state 0), that the relations missingItem, extraItem, badStart, kernMissing, kernExtra, transMissing, transExtra, transDouble, duplicate, unreachable, dangling are all empty. (U) the de-duplication kernel CheckIsExist + the closure sort are additionally executed symbolically on item lists."
	y, err := c.BuildYGen()
	if err != nil {
		c.Inconclusive("%v", err)
		return
	}
	specs := c03Corpus(c)
	dumps, err := c.DumpAll(y, specs)
	if err != nil {
		c.Inconclusive("%v", err)
		return
	}
	c.Bound("%d corpus grammars (fixed + seeded random%s); every (state,item) and (state,symbol) atom", len(specs), map[bool]string{true: " + all 2098 tiny grammars", false: ""}[c.Thorough()])
	c.Outside = append(c.Outside, "grammars outside the corpus", "the 2000-state limit")
	c.Assumptions = append(c.Assumptions, "Horn characterisation in checks/c09.go:LR0Spec", "rule and symbol tables of the dump are the grammar yaccgo read (C10 decides the reading)")
	dir := c.Scratch()
	for _, s := range specs {
		r := dumps[s.Name]
		if !r.OK || r.Dump == nil {
			c.Inconclusive("generation failed for corpus grammar %s: %s%s", s.Name, r.Err, r.Panic)
			continue
		}
		c.Programs++
		c09One(c, s, r.Dump, dir)
	}
	c09Unit(c)
}

func c09One(c *Ctx, s *corpus.Spec, d *Dump, dir string) {
	h := NewHorn()
	GrammarFacts(h, d)
	queries := LR0Spec(h)
	for _, q := range queries {
		h.Query(q)
	}
	res, err := h.Run("/usr/bin/z3", dir, 120*time.Second)
	if err != nil {
		c.Inconclusive("%s: %v", s.Name, err)
		return
	}
	c.hornStats(h, res, len(queries))
	if c.Thorough() && !s.HasTag("tiny") {
		if res2, err2 := h.Run("z3-new", dir, 120*time.Second); err2 != nil {
			c.Inconclusive("%s (z3 5.1.0): %v", s.Name, err2)
		} else {
			for _, q := range queries {
				if res.Sat[q] != res2.Sat[q] {
					c.Inconclusive("%s: z3 4.8.12 and 5.1.0 disagree on %s", s.Name, q)
				}
			}
			c.addExtraInt("cross_solver_checked", len(queries))
		}
	}
	items := 0
	trans := 0
	for _, st := range d.States {
		items += len(st.Items)
		trans += len(st.Gotos)
	}
	c.AddSample(map[string]interface{}{"grammar": s.Name, "states": len(d.States), "items": items, "transitions": trans, "all_queries_unsat": !anySat(res, queries)})
	if len(d.States) > 2 {
		c.MarkDistinct(s.Name)
	}
	for _, q := range queries {
		for i, t := range res.Tuples[q] {
			if i >= 2 {
				break
			}
			var what, key string
			switch q {
			case "missingItem", "extraItem":
				what = fmt.Sprintf("%s: state %s: item (%s, dot %d)", q, d.stateText(t[0]), d.ruleText(t[1]), t[2])
			case "kernMissing", "kernExtra":
				what = fmt.Sprintf("%s: goto(%s, %s): item (%s, dot %d)", q, d.stateText(t[0]), d.symName(t[1]), d.ruleText(t[2]), t[3])
			case "transMissing", "transExtra", "transDouble":
				what = fmt.Sprintf("%s: state %s on %s", q, d.stateText(t[0]), d.symName(t[1]))
			case "duplicate":
				what = fmt.Sprintf("duplicate states with item set %s", d.stateText(t[0]))
			case "unreachable":
				what = fmt.Sprintf("unreachable state %s", d.stateText(t[0]))
			default:
				what = fmt.Sprintf("%s %v", q, t)
			}
			key = "lr0:" + s.Name + ":" + what
			what = "automaton of grammar " + s.Name + " is not the canonical LR(0) collection: " + what
			path := c.writeHornReplay(s, q, key, what, YRes{})
			c.Report(key, what, path)
		}
	}
}

func anySat(res *HornResult, qs []string) bool {
	for _, q := range qs {
		if res.Sat[q] {
			return true
		}
	}
	return false
}

// c09Unit: CheckIsExist and the closure sort on symbolic item lists.
func c09Unit(c *Ctx) {
	eng, err := LoadRepo("Grammar")
	if err != nil {
		c.Inconclusive("%v", err)
		return
	}
	c.Harnesses = append(c.Harnesses, "harness/Grammar/zz_verif_dedup.go:VerifDedup")
	k := 2
	if c.Thorough() {
		k = 3
	}
	c.Bound("U: two item lists of <= %d (rule,dot) pairs with symbolic components in [0,3]", k)
	for n := 1; n <= k; n++ {
		for m := 1; m <= k; m++ {
			c.RunSym(SymJob{Name: fmt.Sprintf("dedup %d/%d", n, m), Eng: eng, PkgPath: RepoModule + "/Grammar", Entry: "VerifDedup",
				Args: []int{n, m}, Replay: ReplaySpec{Kind: "repo", PkgDirs: []string{"Grammar"}}})
		}
	}
	c.NeedCovers("found", "not-found")
}
