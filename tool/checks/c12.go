package checks

import "fmt"

func init() { register("C12", C12) }

func C12(c *Ctx) {
	c.Level = "model_checking"
	c.Explanation = "C12: (a) Grammar.CalculateEpsilonClosure / CalculateCanTerminate run on genuinely symbolic grammars (every left- and right-hand-side symbol is a solver choice, held as a guarded pointer) and are compared with least fixpoints computed on bit masks; (b) the declaration/rule visitors and BuildLALR1 (the whole LR(0)/LALR construction) run inside the engine on ASTs whose right-hand-side symbols are solver choices over {token, token, S, N, %type-only name, undeclared name}; a diagnostic refusal must occur exactly for undefined symbols or unproductive nonterminals."
	c.Harnesses = append(c.Harnesses, "harness/Grammar/zz_verif_fix.go:VerifFixpoints", "harness/Parser/zz_verif_decl.go:VerifUsable")
	engG, err := LoadRepo("Grammar")
	if err != nil {
		c.Inconclusive("%v", err)
		return
	}
	engP, err := LoadRepo("Parser")
	if err != nil {
		c.Inconclusive("%v", err)
		return
	}
	fix := [][2]int{{1, 2}, {2, 2}}
	use := [][2]int{{1, 1}, {1, 2}, {2, 1}}
	if c.Thorough() {
		fix = append(fix, [2]int{3, 1})
		use = append(use, [2]int{2, 2}, [2]int{3, 1})
	}
	c.Bound("fixpoints: all grammars with R rules (R,maxLen) in %v over nonterminals {X,Y,Z} and terminals {a,b}; usability: all rule sets (R,maxLen) in %v over the pool {A,B,S,N,T,U} with and without %%type T", fix, use)
	c.Outside = append(c.Outside, "grammar shapes beyond the bound", "the 2000-state limit", "diagnostics produced by the grammar-file parser itself (C13)")
	for mode := 0; mode <= 1; mode++ {
		for _, b := range fix {
			c.RunSym(SymJob{Name: fmt.Sprintf("fixpoints R=%d len<=%d names=%d", b[0], b[1], mode), Eng: engG, PkgPath: RepoModule + "/Grammar", Entry: "VerifFixpoints",
				Args: []int{b[0], b[1], mode}, Replay: ReplaySpec{Kind: "repo", PkgDirs: []string{"Grammar"}}})
			c.MarkDistinct(fmt.Sprintf("fix %v %d", b, mode))
		}
		for i, b := range use {
			m := mode
			if i >= 3 {
				m = mode + 2 // the larger (thorough) shapes run without %prec choices
			}
			c.RunSym(SymJob{Name: fmt.Sprintf("usable R=%d len<=%d mode=%d", b[0], b[1], m), Eng: engP, PkgPath: RepoModule + "/Parser", Entry: "VerifUsable",
				Args: []int{b[0], b[1], m}, Replay: ReplaySpec{Kind: "repo", PkgDirs: []string{"Parser"}}})
			c.MarkDistinct(fmt.Sprintf("use %v %d", b, m))
		}
	}
	c.Bound("each shape with the user's start symbol named S / X and named `start` (no %%start directive)")
	c.NeedCovers("productive", "unproductive", "nullable", "usable", "unusable")
}
