package checks

import (
	"encoding/json"
	"fmt"
	"os"
	"os/exec"
	"path/filepath"
	"sort"
	"strconv"
	"strings"
	"sync"
	"time"

	"verif/tool/gosym"
)

// Ctx is one run of one property check.
type Ctx struct {
	ID    string
	Tier  string
	Seed  int64
	Start time.Time

	mu          sync.Mutex
	Rep         *gosym.Report
	Bounds      []string
	Outside     []string
	Assumptions []string
	Harnesses   []string
	Samples     []interface{}
	Violations  []string // replay paths of confirmed, unlisted violations
	Known       []string
	Inconcl     []string
	Level       string
	Extra       map[string]interface{}
	Programs    int
	Disagree    int
	Validated   int
	Evaluations int
	Distinct    map[string]bool
	Explanation string
	CoverNeed   map[string]bool
	scratch     []string
	validating  int
	cli         string
	suppressed  int
}

func (c *Ctx) Thorough() bool { return c.Tier == "thorough" }

func (c *Ctx) Inconclusive(format string, a ...interface{}) {
	c.mu.Lock()
	defer c.mu.Unlock()
	msg := fmt.Sprintf(format, a...)
	for _, m := range c.Inconcl {
		if m == msg {
			return
		}
	}
	c.Inconcl = append(c.Inconcl, msg)
}

func (c *Ctx) Bound(format string, a ...interface{}) {
	c.mu.Lock()
	defer c.mu.Unlock()
	c.Bounds = append(c.Bounds, fmt.Sprintf(format, a...))
}

func (c *Ctx) AddSample(s interface{}) {
	c.mu.Lock()
	defer c.mu.Unlock()
	if len(c.Samples) < 12 {
		c.Samples = append(c.Samples, s)
	}
}

func (c *Ctx) MarkDistinct(key string) {
	c.mu.Lock()
	defer c.mu.Unlock()
	c.Distinct[key] = true
}

// Scratch returns a fresh scratch directory outside /repo and /verif, removed at the end.
func (c *Ctx) Scratch() string {
	d, err := os.MkdirTemp("", "verif-"+c.ID+"-")
	if err != nil {
		panic(err)
	}
	c.mu.Lock()
	c.scratch = append(c.scratch, d)
	c.mu.Unlock()
	return d
}

func (c *Ctx) cleanup() {
	for _, d := range c.scratch {
		os.RemoveAll(d)
	}
}

// SymJob is one harness entry explored by gosym.
type SymJob struct {
	Name    string
	Eng     *gosym.Engine
	PkgPath string
	Entry   string
	Args    []int
	// Replay describes how to rebuild the harness natively.
	Replay ReplaySpec
	// Key maps a violation to a numbering-free identification (for known findings).
	Key func(v gosym.Violation) string
	// Need lists cover points that must be reached (vacuity guard).
	Need  []string
	Setup func(st *gosym.State)
	Tweak func(cfg *gosym.Config)
	pre   func()
	// unwindIsFinding: unwinding failures are handed to the caller (confirmed natively) instead of being inconclusive
	unwindIsFinding bool
	// noReplay: violations are confirmed by the caller (no harness replay possible)
	noReplay bool
	// noNativeReplay: the harness depends on engine-side models (fault flags, event recorders); a violation is
	// reported from the solver's model, the native confirmation is done by the caller
	noNativeReplay bool
}

// ReplaySpec says where a harness lives so that a model can be re-run natively.
type ReplaySpec struct {
	Kind    string            `json:"kind"`     // "repo" (overlay into /repo) or "gen" (generated module)
	PkgDirs []string          `json:"pkg_dirs"` // repo package dirs with harness files (first = entry package)
	Gen     map[string]string `json:"gen,omitempty"`
	Extra   map[string]string `json:"extra_files,omitempty"` // generated overlay files (path relative to /repo)
}

type ReplayFile struct {
	Property string           `json:"property"`
	Key      string           `json:"key"`
	What     string           `json:"what"`
	Entry    string           `json:"entry"`
	Args     []int            `json:"args"`
	Spec     ReplaySpec       `json:"spec"`
	Model    map[string]int64 `json:"model"`
	Inputs   []string         `json:"inputs_in_order"`
	Native   string           `json:"native_result,omitempty"`
	Note     string           `json:"note,omitempty"`
}

// RunSym explores a job, replays violations natively and classifies them.
func (c *Ctx) RunSym(job SymJob) *gosym.Report {
	fn := job.Eng.Func(job.PkgPath, job.Entry)
	if fn == nil {
		c.Inconclusive("harness entry %s.%s not found", job.PkgPath, job.Entry)
		return nil
	}
	cfg := job.Eng.Cfg
	if c.Thorough() {
		cfg.CrossEvery = 37
	}
	if job.Tweak != nil {
		job.Tweak(&cfg)
	}
	vlog("start %s", job.Name)
	rep := job.Eng.Explore(fn, Ints(job.Args...), job.Setup, &cfg)
	if os.Getenv("VERIF_VERBOSE") != "" {
		fmt.Printf("  job %-50s paths=%-6d wall=%-8v solver=%-8v steps=%d status=%v\n", job.Name, rep.Paths, rep.Wall.Round(time.Millisecond), rep.SolverTime.Round(time.Millisecond), rep.Steps, rep.Status)
	}
	c.mu.Lock()
	if c.Rep == nil {
		c.Rep = gosym.NewReport(c.ID)
	}
	c.Rep.Merge(rep)
	c.Evaluations += rep.Paths
	c.mu.Unlock()
	for _, p := range rep.Problems {
		if job.unwindIsFinding && strings.HasPrefix(p, "unwind:") {
			continue
		}
		c.Inconclusive("%s: %s", job.Name, p)
	}
	if rep.Truncated {
		c.Inconclusive("%s: exploration truncated at %d paths", job.Name, rep.Paths)
	}
	for _, need := range job.Need {
		if rep.Covers[need] == 0 {
			c.Inconclusive("%s: cover point %q not reached (vacuous harness?)", job.Name, need)
		}
	}
	for _, s := range rep.Samples {
		c.AddSample(map[string]interface{}{"job": job.Name, "decisions": s.Decisions, "path_condition": s.PC, "model": s.Model, "covers": s.Covers})
	}
	c.validateSample(job, rep)
	if job.noReplay {
		return rep
	}
	// classify violations: one replay per distinct key
	seen := map[string]bool{}
	for _, v := range rep.Violations {
		key := v.What
		if job.Key != nil {
			key = job.Key(v)
		}
		if seen[key] {
			continue
		}
		seen[key] = true
		c.mu.Lock()
		enough := len(c.Violations) >= 6
		if enough {
			c.suppressed++
		}
		c.mu.Unlock()
		if len(seen) > 3 || enough {
			continue // already reported enough to act on
		}
		if job.pre != nil {
			job.pre()
		}
		c.handleViolation(job, v, key)
	}
	if len(seen) > 3 {
		fmt.Printf("  (%s: %d further distinct failing cases not replayed)\n", job.Name, len(seen)-3)
	}
	return rep
}

func modelInts(v gosym.Violation) map[string]int64 {
	m := map[string]int64{}
	for _, s := range v.Syms {
		m[s] = int64(v.Model[s])
	}
	return m
}

func (c *Ctx) handleViolation(job SymJob, v gosym.Violation, key string) {
	rf := ReplayFile{Property: c.ID, Key: key, What: v.What, Entry: job.Entry, Args: job.Args, Spec: job.Replay,
		Model: modelInts(v), Inputs: v.Syms}
	dir := filepath.Join(VerifDir, "replays", c.ID)
	os.MkdirAll(dir, 0o755)
	path := filepath.Join(dir, sanitize(key)+".json")
	WriteJSON(path, rf)
	status, msg := "reproduced", "engine-side models (no native harness replay)"
	if !job.noNativeReplay {
		status, msg = NativeReplay(&rf, path)
	}
	if status == "reproduced" && strings.Contains(msg, "(vacuous)") {
		// the native run tripped over a vacuity guard of the harness, not over the property
		status = "not-confirmed"
	}
	if job.noNativeReplay {
		// fault flags and event recorders exist in the engine only: such a violation says "if this step
		// fails, the property is broken"; it is reported only through a concrete input of the driver's
		// own native part that makes a step fail (C19: the real CLI on a pre-existing file), else the
		// run ends INCONCLUSIVE - never a VIOLATION without a native confirmation
		status, msg = "not-confirmed-natively", "holds only under an injected fault or an engine-side event model; the driver's native part decides"
	}
	if status == "reproduced" && assertionID(msg) != assertionID(v.What) {
		// the same inputs fail natively, but on another assertion than in the engine: the two
		// disagree about what happens on this path, so neither is believed
		status = "failed-differently"
	}
	rf.Native = status + ": " + msg
	WriteJSON(path, rf)
	switch status {
	case "reproduced":
		c.Report(key, v.What, path)
	default:
		c.Inconclusive("%s: solver model for %q did not reproduce natively (%s: %s) — encoding or stub suspect, replay=%s", job.Name, v.What, status, msg, path)
	}
}

// Report files a confirmed violation: known finding or VIOLATION.
func (c *Ctx) Report(key, what, replayPath string) {
	c.mu.Lock()
	defer c.mu.Unlock()
	for _, kf := range LoadKnown() {
		if kf.Property == c.ID && kf.Status == "known" && kf.Key == key {
			line := fmt.Sprintf("KNOWN-FINDING: property=%s %s [%s]", c.ID, kf.What, key)
			for _, seen := range c.Known {
				if seen == line {
					return // printed once per run, however many jobs meet it
				}
			}
			c.Known = append(c.Known, line)
			fmt.Println(line)
			return
		}
	}
	c.Violations = append(c.Violations, replayPath)
	fmt.Printf("VIOLATION property=%s replay=%s\n", c.ID, replayPath)
	fmt.Printf("  what: %s  key: %s\n", what, key)
}

func sanitize(s string) string {
	var sb strings.Builder
	for _, r := range s {
		if (r >= 'a' && r <= 'z') || (r >= 'A' && r <= 'Z') || (r >= '0' && r <= '9') || r == '-' || r == '_' || r == '.' {
			sb.WriteRune(r)
		} else {
			sb.WriteByte('_')
		}
	}
	out := sb.String()
	if len(out) > 120 {
		out = out[:120]
	}
	return out
}

type KnownFinding struct {
	Property string `json:"property"`
	Status   string `json:"status"` // known | fixed
	Key      string `json:"key"`
	What     string `json:"what"`
	Commit   string `json:"commit,omitempty"`
}

func LoadKnown() []KnownFinding {
	b, err := os.ReadFile(filepath.Join(VerifDir, "known_findings.json"))
	if err != nil {
		return nil
	}
	var doc struct {
		Findings []KnownFinding `json:"findings"`
	}
	json.Unmarshal(b, &doc)
	return doc.Findings
}

func goEnv() []string {
	return append(os.Environ(), "GOFLAGS=-mod=mod", "GOPROXY=off", "GOSUMDB=off", "GOTOOLCHAIN=local")
}

// NativeReplay rebuilds the harness with the native intrinsics and runs it on the model.
func NativeReplay(rf *ReplayFile, modelPath string) (string, string) {
	tmp, err := os.MkdirTemp("", "verif-replay-")
	if err != nil {
		return "error", err.Error()
	}
	defer os.RemoveAll(tmp)
	switch rf.Spec.Kind {
	case "repo":
		ov, err := RepoOverlay(rf.Spec.PkgDirs...)
		if err != nil {
			return "error", err.Error()
		}
		for rel, content := range rf.Spec.Extra {
			ov[filepath.Join(RepoDir, rel)] = []byte(content)
		}
		entryDir := rf.Spec.PkgDirs[0]
		pkgName := ""
		repl := map[string]string{}
		i := 0
		for virt, content := range ov {
			real := filepath.Join(tmp, fmt.Sprintf("f%d.go", i))
			i++
			os.WriteFile(real, content, 0o644)
			repl[virt] = real
			if filepath.Dir(virt) == filepath.Join(RepoDir, entryDir) && pkgName == "" {
				if m := pkgLine.FindSubmatch(content); m != nil {
					pkgName = string(m[1])
				}
			}
		}
		var as []string
		for _, a := range rf.Args {
			as = append(as, strconv.Itoa(a))
		}
		test := fmt.Sprintf(`package %s

import (
	"fmt"
	"testing"
)

func TestVerifReplay(t *testing.T) {
	status, msg := verifReplayRun(func() { %s(%s) })
	fmt.Printf("VERIF-REPLAY status=%%s msg=%%s\n", status, msg)
}
`, pkgName, rf.Entry, strings.Join(as, ", "))
		real := filepath.Join(tmp, "replay_test.go")
		os.WriteFile(real, []byte(test), 0o644)
		repl[filepath.Join(RepoDir, entryDir, "zz_verif_replay_test.go")] = real
		ovPath := filepath.Join(tmp, "overlay.json")
		WriteJSON(ovPath, map[string]interface{}{"Replace": repl})
		cmd := exec.Command("go", "test", "-v", "-vet=off", "-count=1", "-timeout", "120s", "-overlay", ovPath, "-run", "^TestVerifReplay$", "./"+entryDir)
		cmd.Dir = RepoDir
		cmd.Env = append(goEnv(), "VERIF_MODEL="+modelPath)
		out, err := runWithTimeout(cmd, 180*time.Second)
		return parseReplayOutput(out, err)
	case "gen":
		return replayGen(rf, modelPath, tmp)
	case "gencmp":
		return replayGenCmp(rf, modelPath, tmp)
	}
	return "error", "unknown replay kind " + rf.Spec.Kind
}

func parseReplayOutput(out string, err error) (string, string) {
	for _, l := range strings.Split(out, "\n") {
		if k := strings.Index(l, "VERIF-REPLAY status="); k >= 0 {
			rest := l[k+len("VERIF-REPLAY status="):]
			parts := strings.SplitN(rest, " msg=", 2)
			msg := ""
			if len(parts) > 1 {
				msg = parts[1]
			}
			return parts[0], msg
		}
	}
	if err != nil {
		tail := out
		if len(tail) > 600 {
			tail = tail[len(tail)-600:]
		}
		if strings.Contains(err.Error(), "timeout") {
			return "timeout", tail
		}
		return "error", err.Error() + ": " + tail
	}
	tail := out
	if len(tail) > 800 {
		tail = tail[len(tail)-800:]
	}
	return "error", "no VERIF-REPLAY line in output: " + tail
}

func runWithTimeout(cmd *exec.Cmd, d time.Duration) (string, error) {
	var buf strings.Builder
	cmd.Stdout = &buf
	cmd.Stderr = &buf
	if err := cmd.Start(); err != nil {
		return "", err
	}
	done := make(chan error, 1)
	go func() { done <- cmd.Wait() }()
	select {
	case err := <-done:
		return buf.String(), err
	case <-time.After(d):
		cmd.Process.Kill()
		<-done
		return buf.String(), fmt.Errorf("timeout after %v", d)
	}
}

// ---- evidence ----

func (c *Ctx) WriteEvidence() {
	rep := c.Rep
	if rep == nil {
		rep = gosym.NewReport(c.ID)
	}
	var fns []string
	for f, n := range rep.Funcs {
		fns = append(fns, fmt.Sprintf("%s (%d instr executed)", f, n))
	}
	sort.Strings(fns)
	var stubs []string
	for s, n := range rep.Stubs {
		stubs = append(stubs, fmt.Sprintf("%s x%d", s, n))
	}
	sort.Strings(stubs)
	var covers []string
	for k, n := range rep.Covers {
		covers = append(covers, fmt.Sprintf("%s:%d", k, n))
	}
	sort.Strings(covers)
	var notes []string
	for n := range rep.Notes {
		notes = append(notes, n)
	}
	sort.Strings(notes)
	samples := c.Samples
	if len(samples) == 0 {
		samples = []interface{}{"(no path sample recorded)"}
	}
	cov := map[string]interface{}{
		"states":                        rep.Paths,
		"transitions":                   rep.Decisions,
		"traces_validated_against_impl": c.Validated,
		"samples":                       samples,
		"evaluations":                   c.Evaluations,
		"distinct_nontrivial":           len(c.Distinct),
		"rule":                          "one case = one feasible path (distinct decision vector) of a harness, or one solver query of the Horn validation; non-trivial = reaches the property assertion",
		"functions_encoded":             fns,
		"bounds":                        c.Bounds,
		"outside_bounds":                c.Outside,
		"stubs":                         stubs,
		"cover_points":                  covers,
		"queries":                       map[string]int{"sat": rep.SolverSat, "unsat": rep.SolverUnsat, "unknown": rep.SolverUnk, "error": rep.SolverErr},
		"solver_s":                      float64(rep.SolverTime.Milliseconds()) / 1000,
		"solver":                        "z3 4.8.12 (/usr/bin/z3 -in), push/pop, one process per worker",
		"path_status":                   rep.Status,
		"instructions_executed":         rep.Steps,
		"engine_notes":                  notes,
		"known_findings_matched":        c.Known,
		"inconclusive":                  c.Inconcl,
		"harnesses":                     c.Harnesses,
		"explanation":                   c.Explanation,
	}
	if c.Programs > 0 {
		cov["programs"] = c.Programs
		cov["disagreements_checked"] = c.Disagree
	}
	for k, v := range c.Extra {
		cov[k] = v
	}
	if c.Assumptions == nil {
		c.Assumptions = []string{}
	}
	ev := map[string]interface{}{
		"property_id": c.ID,
		"tier":        c.Tier,
		"seed":        c.Seed,
		"level":       c.Level,
		"coverage":    cov,
		"assumptions": c.Assumptions,
		"wall_s":      since(c.Start),
		"violations":  len(c.Violations),
	}
	evDir := filepath.Join(VerifDir, "evidence")
	if RepoDir != "/repo" {
		// a run against another tree (a seeded change in a scratch worktree) must not overwrite
		// the evidence of /repo
		evDir = filepath.Join(VerifDir, "replays", "evidence_other_tree")
		os.MkdirAll(evDir, 0o755)
	}
	WriteJSON(filepath.Join(evDir, c.ID+".json"), ev)
}

// NeedCovers requires each cover point to be reached by at least one job of this check.
func (c *Ctx) NeedCovers(labels ...string) {
	for _, l := range labels {
		if c.Rep == nil || c.Rep.Covers[l] == 0 {
			c.Inconclusive("cover point %q not reached by any job (vacuous check?)", l)
		}
	}
}

// validateSample replays the model of one explored, non-violating path natively: the
// native harness run must pass too (engine and real build agree on that path).
func (c *Ctx) validateSample(job SymJob, rep *gosym.Report) {
	if job.noReplay || job.noNativeReplay || job.Replay.Kind == "" || job.Replay.Kind == "none" {
		return
	}
	limit := 1
	if c.Thorough() {
		limit = 4
	}
	c.mu.Lock()
	if c.validating >= limit {
		c.mu.Unlock()
		return
	}
	var sample *gosym.PathSample
	for i := range rep.Samples {
		if rep.Samples[i].Status == "ok" && len(rep.Samples[i].Model) > 0 {
			sample = &rep.Samples[len(rep.Samples)-1-i]
			if sample.Status != "ok" {
				sample = &rep.Samples[i]
			}
			break
		}
	}
	if sample == nil {
		c.mu.Unlock()
		return
	}
	c.validating++
	c.mu.Unlock()
	if job.pre != nil {
		job.pre()
	}
	var inputs []string
	for k := range sample.Model {
		inputs = append(inputs, k)
	}
	sort.Strings(inputs)
	rf := ReplayFile{Property: c.ID, Key: "sample", What: "validation of an explored path", Entry: job.Entry, Args: job.Args, Spec: job.Replay, Model: sample.Model, Inputs: inputs}
	dir := filepath.Join(VerifDir, "replays", c.ID)
	os.MkdirAll(dir, 0o755)
	// unique per process: two runs of the same check (e.g. against two trees) must not share it
	path := filepath.Join(dir, fmt.Sprintf("validated_%d_%s.json", os.Getpid(), sanitize(job.Name)))
	WriteJSON(path, rf)
	status, msg := NativeReplay(&rf, path)
	switch status {
	case "passed":
		c.mu.Lock()
		c.Validated++
		c.mu.Unlock()
		os.Remove(path)
	case "skipped":
		os.Remove(path)
	default:
		c.Inconclusive("%s: engine explored a path as passing but the native run of the same inputs ended %s (%s): engine or stub suspect, replay=%s", job.Name, status, msg, path)
	}
}

// CrossCheck re-decides the sampled path queries with z3 5.1.0 and cvc5 (thorough tier).
func (c *Ctx) CrossCheck() {
	if c.Rep == nil || len(c.Rep.Cross) == 0 {
		return
	}
	dir := c.Scratch()
	qs := c.Rep.Cross
	if len(qs) > 120 {
		qs = qs[:120]
	}
	checked, disagreements := 0, 0
	for i, q := range qs {
		f := filepath.Join(dir, fmt.Sprintf("q%d.smt2", i))
		for _, solver := range [][]string{{"z3-new", "-T:30"}, {"cvc5", "--lang=smt2", "--tlimit=30000"}} {
			text := q.SMT
			if solver[0] == "cvc5" {
				text = "(set-logic ALL)\n" + text
			}
			os.WriteFile(f, []byte(text), 0o644)
			out, _ := runWithTimeout(exec.Command(solver[0], append(solver[1:], f)...), 40*time.Second)
			ans := ""
			for _, l := range strings.Split(out, "\n") {
				l = strings.TrimSpace(l)
				if l == "sat" || l == "unsat" {
					ans = l
				}
			}
			if ans == "" {
				continue // timeout / unknown: not counted
			}
			checked++
			if ans != q.Expected {
				disagreements++
				c.Inconclusive("cross-solver disagreement: z3 4.8.12 said %s, %s said %s (query %d)", q.Expected, solver[0], ans, i)
			}
		}
	}
	c.Extra["cross_solver"] = map[string]int{"queries_sampled": len(qs), "answers_compared": checked, "disagreements": disagreements}
}

// assertionID is the fixed part of an assertion message (what follows the first " (" is
// detail such as the text of a runtime panic, which the engine and the Go runtime word differently).
func assertionID(msg string) string {
	msg = strings.TrimSpace(msg)
	if k := strings.Index(msg, " ("); k >= 0 {
		msg = msg[:k]
	}
	return msg
}
