package checks

import (
	"fmt"
	"strings"
	"sync"

	"verif/tool/corpus"
	"verif/tool/gosym"
)

func init() { register("C10", C10) }

func c10Corpus(c *Ctx) []*corpus.Spec {
	want := []string{"expr_std", "opt_mid", "auto_tokens", "expr_precedence", "prec_mixed", "redecl"}
	if c.Thorough() {
		want = append(want, "etf", "lvalue", "expr_nonassoc", "nested_null", "len4", "unit_chain", "dangling_else")
	}
	var out []*corpus.Spec
	for _, s := range corpus.Fixed() {
		for _, w := range want {
			if s.Name == w {
				out = append(out, s)
			}
		}
	}
	return out
}

func layoutData(specs []*corpus.Spec) (string, [][]string) {
	var sb strings.Builder
	q := func(s string) string { return fmt.Sprintf("%q", s) }
	strs := func(xs []string) string {
		var p []string
		for _, x := range xs {
			p = append(p, q(x))
		}
		return "{" + strings.Join(p, ", ") + "}"
	}
	sb.WriteString("package parser\n\n")
	var pieces, seps, rules, toks, precs, starts, codes, unions, rests, ends, spans []string
	var allPieces [][]string
	for _, s := range specs {
		ps, ss := s.Pieces()
		allPieces = append(allPieces, ps)
		pieces = append(pieces, strs(ps))
		seps = append(seps, strs(ss))
		var rs []string
		for k, r := range s.Rules {
			var rhs []string
			for _, x := range r.Rhs {
				rhs = append(rhs, x)
			}
			prec := ""
			if r.Prec != "" {
				prec = r.Prec
			} else {
				tokPrec, _, _ := specPrec(s)
				for _, x := range r.Rhs {
					if s.TokIndex(x) >= 0 && tokPrec[x] > 0 {
						prec = x
					}
				}
			}
			rs = append(rs, fmt.Sprintf("{Lhs: %s, Rhs: []string%s, Prec: %s, Action: %s, Mid: %s}", q(r.Lhs), strs(rhs), q(prec), q(s.Action(k+1, false)), q(r.Mid)))
		}
		rules = append(rules, "{"+strings.Join(rs, ", ")+"}")
		var ts []string
		for _, t := range s.Toks {
			val := t.Num
			if t.Name == "" {
				val = int(t.Char)
			}
			ts = append(ts, fmt.Sprintf("{Name: %s, Value: %d, Tag: %s, Term: true}", q(t.Ref()), val, q(t.Tag)))
		}
		for _, n := range s.NTs {
			ts = append(ts, fmt.Sprintf("{Name: %s, Value: 0, Tag: %s, Term: false}", q(n), q(s.NTTag[n])))
		}
		toks = append(toks, "{"+strings.Join(ts, ", ")+"}")
		var pr []string
		for i, p := range s.Prec {
			a := map[string]int{"left": 1, "right": 2, "nonassoc": 3, "precedence": 3}[p.Assoc]
			for _, sym := range p.Syms {
				pr = append(pr, fmt.Sprintf("{Name: %s, Level: %d, Assoc: %d}", q(sym), i+1, a))
			}
		}
		precs = append(precs, "{"+strings.Join(pr, ", ")+"}")
		st := s.Start
		starts = append(starts, q(st))
		codes = append(codes, q(corpus.GoPrologue))
		unions = append(unions, q(corpus.GoUnion))
		rests = append(rests, q(corpus.GoEpilogue))
		// group ends: the separator after the last action of each lhs group
		var ge []string
		for i, p := range ps {
			if strings.HasPrefix(p, "{ verifReduce(") {
				last := i+1 >= len(ps) || ps[i+1] != "|"
				if last {
					ge = append(ge, fmt.Sprint(i))
				}
			}
		}
		ends = append(ends, "{"+strings.Join(ge, ", ")+"}")
		// rule k spans the pieces from its left-hand side or '|' to its action
		var sp []string
		start := -1
		for i, p := range ps {
			if p == "%%" && start < 0 {
				start = i + 1
				continue
			}
			if start >= 0 && strings.HasPrefix(p, "{ verifReduce(") {
				sp = append(sp, fmt.Sprintf("{%d, %d}", start, i))
				start = i + 1
			}
		}
		spans = append(spans, "{"+strings.Join(sp, ", ")+"}")
	}
	w := func(name, typ string, xs []string) {
		sb.WriteString("var " + name + " = " + typ + "{\n")
		for _, x := range xs {
			sb.WriteString("\t" + x + ",\n")
		}
		sb.WriteString("}\n")
	}
	w("verifPieces", "[][]string", pieces)
	w("verifSeps", "[][]string", seps)
	w("verifExpRules", "[][]verifExpRule", rules)
	w("verifExpToks", "[][]verifExpTok", toks)
	w("verifExpPrec", "[][]verifExpPrecT", precs)
	w("verifExpStart", "[]string", starts)
	w("verifExpCode", "[]string", codes)
	w("verifExpUnion", "[]string", unions)
	w("verifExpRest", "[]string", rests)
	w("verifGroupEnds", "[][]int", ends)
	w("verifRuleSpan", "[][][2]int", spans)
	return sb.String(), allPieces
}

func C10(c *Ctx) {
	c.Level = "model_checking"
	c.Explanation = "C10: the real Lex (coroutine) + Parse + RootVistor.Process run in the engine on renderings of corpus specifications: the canonical text, and texts with m unconstrained whitespace bytes, a /* */ or // comment with m unconstrained ASCII body bytes, or an optional ';' inserted at a lexical gap. What yaccgo will work on (rules in order with symbols, %prec, action text; start symbol; token numbers, tags, kinds; precedence levels; prologue, %union body, epilogue) is compared with tables generated from the specification."
	specs := c10Corpus(c)
	nGap := len(specs) // only these get layout inserted at every gap
	nRich := 12
	if c.Thorough() {
		nRich = 60
	}
	for _, s := range corpus.Fixed() {
		if s.Name == "action_text" || s.Name == "directive_names" || s.Name == "prec_numbers" || s.Name == "utf8_literals" || s.Name == "alias_prectag" || s.Name == "grouped_tokens" || s.Name == "midrule_action" || s.Name == "leading_zero" {
			specs = append(specs, s) // canonical rendering and ';' subsets
		}
	}
	specs = append(specs, corpus.RandomRich(c.Seed, nRich)...)
	data, pieces := layoutData(specs)
	eng, err := LoadRepoExtra(map[string]string{"Parser/zz_verif_layout_data.go": data}, "Parser")
	if err != nil {
		c.Inconclusive("%v", err)
		return
	}
	c.Harnesses = append(c.Harnesses, "harness/Parser/zz_verif_layout.go:VerifCanonical, VerifLayout, VerifComment, VerifSemicolons")
	mWS, mC := 2, 2
	if c.Thorough() {
		mWS, mC = 3, 3
	}
	c.Bound("%d specifications (+ %d random declaration mixes read in canonical rendering and with every subset of optional ';'); at every lexical gap of the canonical rendering (one gap at a time): all strings of <= %d bytes over {space, tab, newline}; a block or line comment with every ASCII body of <= %d bytes; every subset of optional ';' terminators", nGap, nRich, mWS, mC)
	c.Outside = append(c.Outside, "layout inserted at two gaps at once", "non-ASCII bytes and \\r", "layout inside action bodies (they are content); prologue, %union body and epilogue: bodies of up to m bytes over {a,1,_,;,*,space,tab,CR,LF} only", "the textual shape of the epilogue after the second %% (carried verbatim)")
	replay := ReplaySpec{Kind: "repo", PkgDirs: []string{"Parser"}, Extra: map[string]string{"Parser/zz_verif_layout_data.go": data}}
	var wg sync.WaitGroup
	sem := make(chan struct{}, 3)
	run := func(job SymJob) {
		wg.Add(1)
		sem <- struct{}{}
		go func() {
			defer wg.Done()
			defer func() { <-sem }()
			c.RunSym(job)
		}()
	}
	for id, s := range specs {
		run(SymJob{Name: "canonical " + s.Name, Eng: eng, PkgPath: RepoModule + "/Parser", Entry: "VerifCanonical", Args: []int{id}, Replay: replay, Need: []string{"read"}})
		run(SymJob{Name: "semicolons " + s.Name, Eng: eng, PkgPath: RepoModule + "/Parser", Entry: "VerifSemicolons", Args: []int{id}, Replay: replay})
		run(SymJob{Name: "no second %% " + s.Name, Eng: eng, PkgPath: RepoModule + "/Parser", Entry: "VerifNoEpilogue", Args: []int{id}, Replay: replay})
		if id == 0 {
			// code bodies are content: arbitrary short bodies must be carried over byte for byte
			for which := 0; which <= 2; which++ {
				for m := 0; m <= mWS; m++ {
					run(SymJob{Name: fmt.Sprintf("body %s which=%d m=%d", s.Name, which, m), Eng: eng, PkgPath: RepoModule + "/Parser", Entry: "VerifBodies", Args: []int{id, which, m}, Replay: replay,
						Key: func(v gosym.Violation) string { return fmt.Sprintf("body:%d:%s", which, v.What) }})
				}
			}
		}
		if id >= nGap {
			c.MarkDistinct(s.Name)
			continue // random declaration mixes: canonical rendering and ';' subsets only
		}
		nh := len(pieces[id]) - 2 // not after the second %% (that text belongs to the epilogue)
		for h := 0; h < nh; h++ {
			for m := 1; m <= mWS; m++ {
				run(SymJob{Name: fmt.Sprintf("layout %s gap=%d m=%d", s.Name, h, m), Eng: eng, PkgPath: RepoModule + "/Parser", Entry: "VerifLayout", Args: []int{id, h, m}, Replay: replay,
					Key: holeKey("ws", s.Name, pieces[id], h)})
			}
			for kind := 0; kind <= 1; kind++ {
				for m := 0; m <= mC; m++ {
					run(SymJob{Name: fmt.Sprintf("comment %s gap=%d kind=%d m=%d", s.Name, h, kind, m), Eng: eng, PkgPath: RepoModule + "/Parser", Entry: "VerifComment", Args: []int{id, h, kind, m}, Replay: replay,
						Key: holeKey([]string{"block-comment", "line-comment"}[kind], s.Name, pieces[id], h)})
				}
			}
		}
		c.MarkDistinct(s.Name)
	}
	// the code bodies all the way to the output of the real entry points
	if beng, err := LoadRepo("Builder"); err != nil {
		c.Inconclusive("%v", err)
	} else {
		c.Harnesses = append(c.Harnesses, "harness/Builder/zz_verif_carry.go:VerifCarry")
		c.Bound("prologue, %%union body and epilogue containing one of 11 snippets with characters special to fmt / text/template / regexp replacement / the action rewriting (solver-chosen), through TemplateGenFromString (go, -u, -o) and TsGenFromString: the bodies must be part of the data handed to the template resp. of the strings written to the file")
		for v := 0; v <= 3; v++ {
			v := v
			run(SymJob{Name: "carry " + variantNames[v], Eng: beng, PkgPath: RepoModule + "/Builder", Entry: "VerifCarry", Args: []int{v},
				Replay: ReplaySpec{Kind: "repo", PkgDirs: []string{"Builder"}}, Need: []string{"carried"},
				Key: func(vi gosym.Violation) string { return "carry:" + variantNames[v] + ":" + vi.What }})
		}
	}
	wg.Wait()
	c.NeedCovers("read")
	c.Programs = len(specs)
}

// holeKey identifies a failing case by what was inserted and between which two pieces.
func holeKey(what, spec string, pieces []string, h int) func(v gosym.Violation) string {
	return func(v gosym.Violation) string {
		next := ""
		if h+1 < len(pieces) {
			next = pieces[h+1]
		}
		short := func(s string) string {
			s = strings.ReplaceAll(s, "\n", " ")
			if len(s) > 16 {
				s = s[:16]
			}
			return s
		}
		var body []string
		for _, n := range []string{"ws", "cb"} {
			for i := 0; ; i++ {
				x, ok := v.Model[fmt.Sprintf("%s!%d", n, i)]
				if !ok {
					break
				}
				body = append(body, fmt.Sprintf("%02x", x))
			}
		}
		return fmt.Sprintf("%s[%s] after %q before %q: %s", what, strings.Join(body, ""), short(pieces[h]), short(next), v.What)
	}
}
