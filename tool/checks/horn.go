package checks

import (
	"fmt"
	"os"
	"os/exec"
	"path/filepath"
	"regexp"
	"strconv"
	"strings"
	"time"
)

// Horn builds a Z3 fixed-point (datalog) problem over one finite sort.
type Horn struct {
	sb      strings.Builder
	rels    map[string]int
	queries []string
	Facts   int
	Rules   int
}

const hornBits = 12

func NewHorn() *Horn {
	h := &Horn{rels: map[string]int{}}
	h.sb.WriteString("(set-option :fp.engine datalog)\n")
	fmt.Fprintf(&h.sb, "(define-sort S () (_ BitVec %d))\n", hornBits)
	for _, v := range strings.Fields("q q2 q3 r r2 d d1 t u x y a b") {
		fmt.Fprintf(&h.sb, "(declare-var %s S)\n", v)
	}
	return h
}

func (h *Horn) Rel(name string, arity int) {
	if _, ok := h.rels[name]; ok {
		return
	}
	h.rels[name] = arity
	h.sb.WriteString("(declare-rel " + name + " (")
	for i := 0; i < arity; i++ {
		h.sb.WriteString("S ")
	}
	h.sb.WriteString("))\n")
}

func hv(n int) string { return fmt.Sprintf("#x%03x", n) }

func (h *Horn) Fact(rel string, args ...int) {
	h.Rel(rel, len(args))
	h.Facts++
	if len(args) == 0 {
		h.sb.WriteString("(rule " + rel + ")\n")
		return
	}
	h.sb.WriteString("(rule (" + rel)
	for _, a := range args {
		if a < 0 || a >= 1<<hornBits {
			panic(fmt.Sprintf("horn: value %d out of domain", a))
		}
		h.sb.WriteString(" " + hv(a))
	}
	h.sb.WriteString("))\n")
}

// Rule adds "head :- body" given in SMT syntax: Rule("(it q r2 ZERO u)", "(it q r d t)", ...).
func (h *Horn) Rule(head string, body ...string) {
	h.Rules++
	if len(body) == 0 {
		h.sb.WriteString("(rule " + head + ")\n")
		return
	}
	h.sb.WriteString("(rule (=> (and " + strings.Join(body, " ") + ") " + head + "))\n")
}

func (h *Horn) Query(rel string) {
	h.queries = append(h.queries, rel)
}

var varRe = regexp.MustCompile(`\(:var (\d+)\) #x([0-9a-fA-F]+)`)

type HornResult struct {
	Sat    map[string]bool
	Tuples map[string][][]int
	Time   time.Duration
	Text   string
}

// Run decides all queries with the given z3 binary.
func (h *Horn) Run(bin string, dir string, timeout time.Duration) (*HornResult, error) {
	text := h.sb.String()
	for _, q := range h.queries {
		text += "(echo \"@@query " + q + "\")\n(query " + q + " :print-answer true)\n"
	}
	f := filepath.Join(dir, fmt.Sprintf("horn-%d.smt2", time.Now().UnixNano()))
	if err := os.WriteFile(f, []byte(text), 0o644); err != nil {
		return nil, err
	}
	defer os.Remove(f)
	t0 := time.Now()
	cmd := exec.Command(bin, f)
	out, err := runWithTimeout(cmd, timeout)
	res := &HornResult{Sat: map[string]bool{}, Tuples: map[string][][]int{}, Time: time.Since(t0), Text: text}
	if strings.Contains(out, "(error") {
		return res, fmt.Errorf("z3 fixedpoint error: %s", tailStr(out, 400))
	}
	if err != nil && !strings.Contains(out, "@@query") {
		return res, fmt.Errorf("z3: %v: %s", err, tailStr(out, 400))
	}
	parts := strings.Split(out, "@@query ")
	seen := 0
	for _, p := range parts[1:] {
		nl := strings.IndexByte(p, '\n')
		if nl < 0 {
			continue
		}
		name := strings.Trim(strings.TrimSpace(p[:nl]), "\"")
		rest := strings.TrimSpace(p[nl+1:])
		switch {
		case strings.HasPrefix(rest, "unsat"):
			res.Sat[name] = false
			seen++
		case strings.HasPrefix(rest, "sat"):
			res.Sat[name] = true
			seen++
			arity := h.rels[name]
			var cur []int
			last := -1
			for _, m := range varRe.FindAllStringSubmatch(rest, -1) {
				k, _ := strconv.Atoi(m[1])
				v, _ := strconv.ParseInt(m[2], 16, 64)
				if k <= last && cur != nil {
					res.Tuples[name] = append(res.Tuples[name], cur)
					cur = nil
				}
				if cur == nil {
					cur = make([]int, arity)
					for i := range cur {
						cur[i] = -1
					}
				}
				if k < arity {
					cur[k] = int(v)
				}
				last = k
			}
			if cur != nil {
				res.Tuples[name] = append(res.Tuples[name], cur)
			}
		default:
			return res, fmt.Errorf("z3: query %s undecided: %s", name, tailStr(rest, 200))
		}
	}
	if seen != len(h.queries) {
		return res, fmt.Errorf("z3: %d of %d queries answered: %s", seen, len(h.queries), tailStr(out, 300))
	}
	return res, nil
}

// GrammarFacts emits the grammar and automaton of a dump as facts.
//
//	at(r,d,X) lhs(r,A) len(r,n) succ(d,d1) term(t) nonterm(A) goto(q,X,q2) in(q,r,d) state(q)
//	posdot(d) neq(a,b) over states, rlt(r1,r2) rule order, zero(0)
func GrammarFacts(h *Horn, d *Dump) {
	maxLen := 0
	for ri, r := range d.Rules {
		h.Fact("lhs", ri, r.Lhs)
		h.Fact("len", ri, len(r.Rhs))
		for di, x := range r.Rhs {
			h.Fact("at", ri, di, x)
		}
		if len(r.Rhs) > maxLen {
			maxLen = len(r.Rhs)
		}
	}
	h.Rel("at", 3)
	for i := 0; i <= maxLen; i++ {
		h.Fact("succ", i, i+1)
		if i > 0 {
			h.Fact("posdot", i)
		}
	}
	h.Rel("posdot", 1)
	for _, s := range d.Symbols {
		if s.IsNT {
			h.Fact("nonterm", s.ID)
		} else {
			h.Fact("term", s.ID)
		}
	}
	h.Rel("goto", 3)
	h.Rel("in", 3)
	for _, st := range d.States {
		h.Fact("state", st.Index)
		for _, it := range st.Items {
			h.Fact("in", st.Index, it.Rule, it.Dot)
		}
		for _, g := range st.Gotos {
			h.Fact("goto", st.Index, g.Sym, g.To)
		}
	}
	h.Rel("neq", 2)
	for i := range d.States {
		for j := range d.States {
			if i != j {
				h.Fact("neq", i, j)
			}
		}
	}
	h.Rel("rlt", 2)
	for i := range d.Rules {
		for j := range d.Rules {
			if i < j {
				h.Fact("rlt", i, j)
			}
		}
	}
}

// LALRSpec adds the declarative LALR(1) semantics (LR(1) items merged by core).
func LALRSpec(h *Horn) {
	h.Rel("nullSuffix", 2)
	h.Rel("nullable", 1)
	h.Rel("first", 2)
	h.Rel("firstSuffix", 3)
	h.Rel("it", 4)
	h.Rel("la", 3)
	h.Rule("(nullSuffix r d)", "(len r d)")
	h.Rule("(nullSuffix r d)", "(at r d x)", "(nullable x)", "(succ d d1)", "(nullSuffix r d1)")
	h.Rule("(nullable a)", "(lhs r a)", "(nullSuffix r #x000)")
	h.Rule("(first t t)", "(term t)")
	h.Rule("(first a t)", "(lhs r a)", "(firstSuffix r #x000 t)")
	h.Rule("(firstSuffix r d t)", "(at r d x)", "(first x t)")
	h.Rule("(firstSuffix r d t)", "(at r d x)", "(nullable x)", "(succ d d1)", "(firstSuffix r d1 t)")
	// LR(1) items over yaccgo's LR(0) automaton; $ is symbol 1, the augmented rule is 0
	h.Rule("(it #x000 #x000 #x000 #x001)")
	h.Rule("(it q r2 #x000 u)", "(it q r d t)", "(at r d b)", "(lhs r2 b)", "(succ d d1)", "(firstSuffix r d1 u)")
	h.Rule("(it q r2 #x000 t)", "(it q r d t)", "(at r d b)", "(lhs r2 b)", "(succ d d1)", "(nullSuffix r d1)")
	h.Rule("(it q2 r d1 t)", "(it q r d t)", "(at r d x)", "(goto q x q2)", "(succ d d1)")
	h.Rule("(la q r t)", "(it q r d t)", "(len r d)")
}
