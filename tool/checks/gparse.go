package checks

import (
	"fmt"
	"os"
	"strings"
	"sync"

	"verif/tool/corpus"
)

const (
	modeSound    = 1
	modeComplete = 2
	modeError    = 4
	modeValue    = 8
	modeLALR     = 16
)

func init() {
	register("C01", func(c *Ctx) { gParse(c, modeSound, "C01") })
	register("C02", func(c *Ctx) { gParse(c, modeComplete, "C02") })
	register("C06", func(c *Ctx) { gParse(c, modeError, "C06") })
	register("C07", func(c *Ctx) { gParse(c, modeValue, "C07") })
}

// quickCorpus / thoroughCorpus choose the grammars for Mode G.
func gCorpus(c *Ctx, mode int) []*corpus.Spec {
	all := corpus.Fixed()
	var out []*corpus.Spec
	want := map[string]bool{}
	switch {
	case c.Thorough():
		for _, s := range all {
			want[s.Name] = true
		}
	default:
		for _, n := range []string{"expr_std", "expr_nonassoc", "etf", "lvalue", "sep_ba", "nqlalr", "list_null", "opt_mid", "prec_mixed", "nullseq_OM", "etf_basefirst", "dangling_else", "len4", "len10", "stmts12", "redecl", "rlist", "split_groups", "nullable_chain3", "big200", "rlist_basefirst", "alias_follow", "mod_op", "same_actions", "copy_actions", "partial_kernel"} {
			want[n] = true
		}
	}
	for _, s := range all {
		if s.HasTag("cells-only") {
			continue // 32 symbols: only the cell-wise comparison of C05 and the Horn checks use it
		}
		if s.HasTag("go-only-actions") {
			continue // action bodies in Go syntax (C10 reads them); no TypeScript rendering
		}
		if s.HasTag("no-log") && mode != 0 {
			continue // some reductions do not log themselves: only for variant-against-variant harnesses
		}
		if s.SameActions && mode == 0 {
			continue // needs the rule-numbering guard of gParse
		}
		if s.HasTag("big") && mode == 0 {
			// the 200-state grammar is there for the state-number encoding (C01 C02 C06 C07,
			// C03, C09); the pairwise and history harnesses would spend minutes on it
			continue
		}
		if want[s.Name] {
			out = append(out, s)
		}
	}
	if c.Thorough() {
		out = append(out, corpus.Random(c.Seed, 6)...)
		out = append(out, corpus.RandomRich(c.Seed, 8)...)
	} else {
		out = append(out, corpus.Random(c.Seed, 2)...)
		out = append(out, corpus.RandomRich(c.Seed, 3)...)
	}
	if only := os.Getenv("VERIF_ONLY"); only != "" {
		var f []*corpus.Spec
		for _, s := range out {
			if strings.Contains(","+only+",", ","+s.Name+",") {
				f = append(f, s)
			}
		}
		return f
	}
	return out
}

func gParse(c *Ctx, mode int, tag string) {
	c.Level = "model_checking"
	y, err := c.BuildYGen()
	if err != nil {
		c.Inconclusive("%v", err)
		return
	}
	specs := gCorpus(c, mode)
	c.classifyLALR(y, specs)
	{
		// grammars whose actions log the driver's rule number need yaccgo's numbering = file order
		var same []*corpus.Spec
		for _, s := range specs {
			if s.SameActions {
				same = append(same, s)
			}
		}
		if len(same) > 0 {
			dumps, _ := c.DumpAll(y, same)
			var keep []*corpus.Spec
			for _, s := range specs {
				if s.SameActions {
					if r := dumps[s.Name]; !(r.OK && r.Dump != nil && rulesInFileOrder(s, r.Dump)) {
						c.Outside = append(c.Outside, "grammar "+s.Name+" (identical action texts) left out: this tree does not number the rules in file order")
						continue
					}
				}
				keep = append(keep, s)
			}
			specs = keep
		}
	}
	variants := GoVariants
	g, err := c.Generate(y, specs, append(append([]string{}, variants...), "ts"), map[string]string{"zz_verif_step.go": stepSentinel})
	if err != nil {
		c.Inconclusive("%v", err)
		return
	}
	specs = g.Specs
	// the step lemma reads "reduce -a" as rule a of the file: confirmed per grammar on the
	// native dump (a tree that numbers its rules differently is decided without the lemma)
	stepOK := map[string]bool{}
	stepDump := map[string]*Dump{}
	if dumps, err := c.DumpAll(y, specs); err == nil {
		for _, s := range specs {
			if r := dumps[s.Name]; r.OK && r.Dump != nil && rulesInFileOrder(s, r.Dump) {
				stepDump[s.Name] = r.Dump
				if g.NoStep == "" {
					stepOK[s.Name] = true
				}
			}
		}
	}
	N := 4
	if c.Thorough() {
		N = 6
	}
	c.Harnesses = append(c.Harnesses, "harness/gen/ref.go.txt:VerifParse (emitted next to each generated parser)")
	c.Bound("token strings: every sequence of N=%d arbitrary int64 token codes (any int, including non-tokens, -1 = end of input) with arbitrary int64 values; %d corpus grammars x %d Go variants", N, len(specs), len(variants))
	c.Outside = append(c.Outside, "inputs longer than N tokens", "grammars outside the corpus", "the user's GetToken (replaced by an array reader)", "TypeScript: JavaScript numbers are modelled as 64-bit integers (values beyond 2^53 and NaN arithmetic are outside the claim)")
	c.Assumptions = append(c.Assumptions, "reference recognisers (Earley, derivation replay, attribute evaluation) in harness/gen/ref.go.txt are correct", "go/ssa semantics as implemented by gosym; append growth policy irrelevant to the drivers")
	c.Explanation = fmt.Sprintf("%s (Mode G): the parser source emitted by the current tree is loaded with go/packages, lowered to go/ssa and executed symbolically by gosym; every feasible path of Parser() over %d unconstrained token codes and values is explored, the property is asserted at the end of each path and decided by Z3.", tag, N)
	type jobT struct {
		s *corpus.Spec
		v string
	}
	var jobs []jobT
	for _, s := range specs {
		for _, v := range variants {
			jobs = append(jobs, jobT{s, v})
		}
	}
	// jobs share the engine (read-only SSA); run a few side by side
	sem := make(chan struct{}, 4)
	var wg sync.WaitGroup
	stepOnly := os.Getenv("VERIF_STEP_ONLY") != "" // development aid: only the step lemma
	for _, j := range jobs {
		j := j
		if stepOnly {
			break
		}
		wg.Add(1)
		sem <- struct{}{}
		go func() {
			defer wg.Done()
			defer func() { <-sem }()
			m := mode
			if j.s.HasTag("lalr1") {
				m |= modeLALR
			}
			n := N
			if j.s.MinN > n {
				n = j.s.MinN
			}
			job := c.GenJob(g, j.s, j.v, "VerifParse", []int{n, m}, tag)
			job.Need = []string{"reject"}
			job.Tweak = nil
			c.RunSym(job)
			c.MarkDistinct(j.s.Name + "/" + j.v)
		}()
	}
	// the step lemma: one macro-step of the driver from every path configuration
	D := 4
	// thorough: depth 5 for a handful of small grammars (the path count grows about fourfold per level)
	deep := map[string]bool{}
	if c.Thorough() {
		for _, n := range []string{"expr_std", "etf", "list_null", "opt_mid", "lvalue", "rlist", "dangling_else"} {
			deep[n] = true
		}
	}
	depthOf := func(name string) int {
		if deep[name] {
			return 5
		}
		return D
	}
	nStep := 0
	for _, j := range jobs {
		j := j
		if !stepOK[j.s.Name] || j.s.HasTag("big") {
			continue
		}
		if !c.Thorough() && (j.v == "go-u" || j.v == "go-o-u") {
			// quick tier: the two driver texts (global state, context object); the -u forms
			// differ in Action only, which the reference machine calls as well
			continue
		}
		nStep++
		wg.Add(1)
		sem <- struct{}{}
		go func() {
			defer wg.Done()
			defer func() { <-sem }()
			job := c.GenJob(g, j.s, j.v, "VerifStep", []int{depthOf(j.s.Name), mode}, tag)
			job.Tweak = nil
			c.RunSym(job)
		}()
	}
	if nStep > 0 {
		c.Harnesses = append(c.Harnesses, "harness/gen/step.go.txt:VerifStep (emitted next to each generated Go parser)")
		c.Bound("step lemma, inputs of any length: from every configuration whose stack spells a path of the emitted automaton (depth <= %d - thorough: 5 for seven small grammars -, up to that many slots, stale slots holding state 1 or the last state, values arbitrary int64) and every lookahead code, the emitted Go driver performs exactly the LR machine's moves over the emitted table until the next token request / accept / error (%d grammar-variant pairs); parses whose stack grows beyond %d entries are outside this lemma (they are covered up to N tokens by the exploration from the initial configuration)", D, nStep, D)
		c.Assumptions = append(c.Assumptions, "step lemma: slices in gosym are host slices (length, capacity and aliasing after append follow the Go runtime's growth policy for the interpreter's element size - the same doubling as the real element type for the sizes explored)")
	} else if g.NoStep != "" {
		c.Outside = append(c.Outside, "step lemma not established on this tree (the harness writes the driver's stack variables by name and they changed: "+g.NoStep+")")
	}
	// the TypeScript variant, executed by tsmini on the same term/solver layer
	for _, s := range specs {
		s := s
		if stepOnly {
			break
		}
		wg.Add(1)
		sem <- struct{}{}
		go func() {
			defer wg.Done()
			defer func() { <-sem }()
			m := mode
			if s.HasTag("lalr1") {
				m |= modeLALR
			}
			n := N
			if s.MinN > n {
				n = s.MinN
			}
			c.tsParseJob(g.Eng, s, g.TSPath(s.Name), n, m, tag)
			c.MarkDistinct(s.Name + "/ts")
		}()
	}
	// the step lemma for the TypeScript driver (harness text in the grammar's epilogue)
	nTSStep := 0
	for _, s := range specs {
		s := s
		d := stepDump[s.Name]
		if d == nil || s.HasTag("big") {
			continue
		}
		if !c.Thorough() && mode&(modeSound|modeValue) == 0 {
			// the TypeScript step harness asserts every aspect at once: the quick tier runs it
			// under C01 and C07 only
			continue
		}
		nTSStep++
		wg.Add(1)
		sem <- struct{}{}
		go func() {
			defer wg.Done()
			defer func() { <-sem }()
			c.tsStepJob(g.Eng, s, d, g.TSPath(s.Name), depthOf(s.Name), tag)
		}()
	}
	if nTSStep > 0 {
		c.Harnesses = append(c.Harnesses, "tool/corpus: TSStepEpilogue verifStep (TypeScript text in the grammar's epilogue, run by tsmini and, for replays, by node)")
		c.Bound("step lemma for the TypeScript driver: same statement as for the Go drivers, depth and slots <= %d, %d grammars", D, nTSStep)
	}
	wg.Wait()
	if nTSStep > 0 {
		c.NeedCovers("ts-step")
	}
	c.Programs = len(specs)
	// inputs of any length: the emitted dense table is validated cell by cell against the
	// Horn model of the LALR(1) automaton (premise of the standard LR correctness argument)
	if nStep > 0 {
		c.NeedCovers("step-shift", "step-reduce", "step-accept", "step-error")
	}
	if mode&(modeSound|modeComplete) != 0 && !stepOnly {
		vspecs := specs
		if c.Thorough() {
			vspecs = append(append([]*corpus.Spec{}, corpus.Fixed()...), corpus.Random(c.Seed, 60)...)
		}
		c.vTableAll(y, vspecs, mode&modeSound != 0, mode&modeComplete != 0)
		c.Bound("any input length (per grammar): every cell of the emitted dense table of %d grammars decided against the Horn model of the LALR(1) automaton (Z3 datalog); with C05's cell-wise equality of the packed look-up and the bounded driver exploration this covers parses of unbounded length under the standard LR argument", len(vspecs))
		c.Assumptions = append(c.Assumptions, "the composition argument (table is an LALR(1) table + driver executes the table) is standard LR theory and part of the trusted base")
	}
}

// rulesInFileOrder: rule k of the dump is rule k of the specification (0 = augmented rule).
func rulesInFileOrder(s *corpus.Spec, d *Dump) bool {
	if len(d.Rules) != len(s.Rules)+1 {
		return false
	}
	for k, r := range s.Rules {
		dr := d.Rules[k+1]
		if dr.Lhs != d.symByRef(r.Lhs) || len(dr.Rhs) != len(r.Rhs) {
			return false
		}
		for i, x := range r.Rhs {
			if dr.Rhs[i] != d.symByRef(x) {
				return false
			}
		}
	}
	return true
}
