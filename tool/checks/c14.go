package checks

import (
	"crypto/sha256"
	"fmt"
	"os"
	"path/filepath"
	"strings"
	"time"

	"verif/tool/corpus"
	"verif/tool/gosym"
)

func init() { register("C14", C14) }

func c14Corpus(c *Ctx) []*corpus.Spec {
	want := []string{"list_null", "auto_tokens", "rr_first", "case_names"}
	if c.Thorough() {
		want = append(want, "scc_cycle", "shared_lookback", "lvalue", "opt_mid", "dangling_else", "unit_chain", "etf", "expr_nonassoc", "sep_ab")
	}
	var out []*corpus.Spec
	for _, s := range corpus.Fixed() {
		for _, w := range want {
			if s.Name == w {
				out = append(out, s)
			}
		}
	}
	return out
}

func textsFile(pkg string, specs []*corpus.Spec) string {
	var sb strings.Builder
	sb.WriteString("package " + pkg + "\n\nvar verifTexts = []string{\n")
	for _, s := range specs {
		fmt.Fprintf(&sb, "\t%q,\n", s.GoText())
	}
	sb.WriteString("}\n")
	return sb.String()
}

var variantNames = []string{"go", "go-u", "go-o", "ts"}

func C14(c *Ctx) {
	c.Level = "model_checking"
	c.Explanation = "C14: the whole generation (Lex, Parse, visitors, LR(0)/LALR construction, table packing, builders) runs inside the engine through the real entry points TemplateGenFromString / TsGenFromString, twice: once with every Go map iterated in insertion order and once with one dynamic map-iteration instance (a solver-chosen index over all instances of the run) iterated in a solver-chosen order; the data handed to text/template (all TemplateBuilder string fields) resp. the strings written with WriteString must be identical. Go's randomised map order is thereby a solver variable. A difference is confirmed by running the natively built generator repeatedly on the grammar."
	specs := c14Corpus(c)
	eng, err := LoadRepoExtra(map[string]string{"Builder/zz_verif_texts.go": textsFile("builder", specs)}, "Builder")
	if err != nil {
		c.Inconclusive("%v", err)
		return
	}
	y, err := c.BuildYGen()
	if err != nil {
		c.Inconclusive("%v", err)
		return
	}
	variants := []int{0, 3}
	if c.Thorough() {
		variants = []int{0, 1, 2, 3}
	}
	c.Harnesses = append(c.Harnesses, "harness/Builder/zz_verif_det.go:VerifDeterministic")
	c.Bound("%d corpus grammars x variants %v; every dynamic map-iteration instance of the run, one deviating instance at a time; all permutations for maps with <= 4 entries, the first two positions free for larger maps", len(specs), variants)
	c.Outside = append(c.Outside, "two or more map iterations deviating from insertion order at once", "text/template rendering itself (deterministic given its data)", "grammars outside the corpus", "nondeterminism from sources other than map iteration")
	c.Assumptions = append(c.Assumptions, "os.Create/WriteString/Close and text/template.Execute are modelled by event recorders", "regexp.ReplaceAllStringFunc executed natively on concrete strings")
	sites := map[string]bool{}
	for i, s := range specs {
		for _, v := range variants {
			s, v, i := s, v, i
			job := SymJob{Name: fmt.Sprintf("determinism %s/%s", s.Name, variantNames[v]), Eng: eng, PkgPath: RepoModule + "/Builder", Entry: "VerifDeterministic",
				Args: []int{i, v}, Replay: ReplaySpec{Kind: "none"}, Need: []string{"compared"}, noReplay: true}
			rep := c.RunSym(job)
			c.MarkDistinct(job.Name)
			if rep == nil {
				continue
			}
			for _, viol := range rep.Violations {
				if strings.Contains(viol.What, "second generation in the same process") {
					key := "sameprocess:" + s.Name + ":" + variantNames[v]
					if !sites[key] {
						sites[key] = true
						c.confirmSameProcess(y, s, v, key, viol)
					}
					continue
				}
				site := viol.What
				if k := strings.Index(site, "ranged over at "); k >= 0 {
					site = site[k+len("ranged over at "):]
				}
				key := "maporder:" + site
				if sites[key] {
					continue
				}
				sites[key] = true
				c.confirmNondet(y, s, v, key, viol)
			}
		}
	}
	c.Programs = len(specs)
}

// confirmNondet runs the natively built generator repeatedly and compares the outputs.
func (c *Ctx) confirmNondet(y *YGen, s *corpus.Spec, variant int, key string, v gosym.Violation) {
	dir := c.Scratch()
	vname := variantNames[variant]
	sums := map[string]int{}
	const runs = 24
	for i := 0; i < runs; i++ {
		out := filepath.Join(dir, fmt.Sprintf("out%d.txt", i))
		res, err := y.Run([]YJob{{Name: s.Name, Text: s.GoText(), Variant: vname, Out: out}}, time.Minute)
		if err != nil || len(res) != 1 || !res[0].OK {
			c.Inconclusive("native generation failed while confirming %s", key)
			return
		}
		b, _ := os.ReadFile(out)
		sums[fmt.Sprintf("%x", sha256.Sum256(b))[:12]]++
	}
	path := filepath.Join(VerifDir, "replays", c.ID, sanitize(key)+".json")
	WriteJSON(path, map[string]interface{}{"property": c.ID, "key": key, "kind": "nondeterminism", "grammar_name": s.Name, "variant": vname,
		"grammar_text": s.GoText(), "distinct_outputs_in_24_native_runs": sums, "model": modelInts(v),
		"replay": "generate the grammar repeatedly with `yaccgo generate` and compare checksums"})
	if len(sums) > 1 {
		c.Report(key, fmt.Sprintf("output of grammar %s (%s) depends on the iteration order of the map at %s: %d distinct files in %d native runs", s.Name, vname, strings.TrimPrefix(key, "maporder:"), len(sums), runs), path)
	} else {
		c.Inconclusive("solver found an order-dependent map iteration (%s) but %d native runs produced identical files; not reported", key, runs)
	}
}

// confirmSameProcess: the native driver generates the grammar three times in ONE process; the
// files must be identical (and equal to what a fresh process writes).
func (c *Ctx) confirmSameProcess(y *YGen, s *corpus.Spec, variant int, key string, v gosym.Violation) {
	dir := c.Scratch()
	vname := variantNames[variant]
	var jobs []YJob
	for i := 0; i < 3; i++ {
		jobs = append(jobs, YJob{Name: s.Name, Text: s.GoText(), Variant: vname, Out: filepath.Join(dir, fmt.Sprintf("same%d.txt", i))})
	}
	res, err := y.Run(jobs, time.Minute)
	if err != nil || len(res) != 3 {
		c.Inconclusive("native generation failed while confirming %s", key)
		return
	}
	sums := map[string]int{}
	for _, j := range jobs {
		b, _ := os.ReadFile(j.Out)
		sums[fmt.Sprintf("%x", sha256.Sum256(b))[:12]]++
	}
	path := filepath.Join(VerifDir, "replays", c.ID, sanitize(key)+".json")
	WriteJSON(path, map[string]interface{}{"property": c.ID, "key": key, "kind": "same-process", "grammar_name": s.Name, "variant": vname,
		"grammar_text": s.GoText(), "distinct_outputs_of_three_generations_in_one_process": sums,
		"replay": "call the generation entry point three times in one process on this grammar and compare the files"})
	if len(sums) > 1 {
		c.Report(key, fmt.Sprintf("grammar %s (%s): three generations in one process wrote %d different files", s.Name, vname, len(sums)), path)
	} else {
		c.Inconclusive("the engine saw a second generation in the same process differ (%s) but three native generations in one process wrote identical files; not reported", key)
	}
}
