package checks

import (
	"fmt"
	"regexp"
	"sort"
	"strconv"
	"strings"
	"time"

	"verif/tool/corpus"
)

func init() { register("C03", C03) }

// dumpName is the symbol name yaccgo uses internally for a spec symbol reference.
func dumpName(ref string) string {
	if strings.HasPrefix(ref, "'") {
		return "$operator" + strings.Trim(ref, "'")
	}
	return ref
}

func (d *Dump) symByName(name string) int {
	for _, s := range d.Symbols {
		if s.Name == name && !(s.ID == 0 && name == "start") {
			return s.ID
		}
	}
	// the user's own "start" nonterminal shadows the augmented symbol's name
	for _, s := range d.Symbols {
		if s.Name == name && s.ID != 0 {
			return s.ID
		}
	}
	return -1
}

// symByRef finds the terminal for a specification reference: literals by their character
// code, named tokens by name (independent of the internal naming of literals).
func (d *Dump) symByRef(ref string) int {
	if strings.HasPrefix(ref, "'") && len(ref) >= 3 {
		code := []rune(ref[1:])[0]
		for _, s := range d.Symbols {
			if !s.IsNT && s.Value == int(code) && s.ID > 1 {
				return s.ID
			}
		}
		return -1
	}
	return d.symByName(ref)
}

func (d *Dump) symName(id int) string {
	for _, s := range d.Symbols {
		if s.ID == id {
			if strings.HasPrefix(s.Name, "$operator") {
				return "'" + s.Name[9:] + "'"
			}
			return s.Name
		}
	}
	return fmt.Sprintf("sym%d", id)
}

func (d *Dump) ruleText(r int) string {
	if r < 0 || r >= len(d.Rules) {
		return fmt.Sprintf("rule%d", r)
	}
	var sb strings.Builder
	sb.WriteString(d.symName(d.Rules[r].Lhs) + " ->")
	for _, x := range d.Rules[r].Rhs {
		sb.WriteString(" " + d.symName(x))
	}
	return sb.String()
}

// stateText identifies a state by its kernel items (numbering-free).
func (d *Dump) stateText(q int) string {
	if q < 0 || q >= len(d.States) {
		return fmt.Sprintf("state%d", q)
	}
	var items []string
	for _, it := range d.States[q].Items {
		if it.Dot == 0 && it.Rule != 0 {
			continue
		}
		r := d.Rules[it.Rule]
		var sb strings.Builder
		sb.WriteString(d.symName(r.Lhs) + "->")
		for i, x := range r.Rhs {
			if i == it.Dot {
				sb.WriteString(".")
			}
			sb.WriteString(d.symName(x))
			if i+1 < len(r.Rhs) {
				sb.WriteString(" ")
			}
		}
		if it.Dot == len(r.Rhs) {
			sb.WriteString(".")
		}
		items = append(items, sb.String())
	}
	sort.Strings(items)
	return "{" + strings.Join(items, "; ") + "}"
}

var warnRe = regexp.MustCompile(`warning: has the conflic (\d+), sym (\d+), conflict Type (\w+), (\w+)`)

// specPrec computes, from the specification alone, the precedence level of every token
// (0 = none) and of every rule (explicit %prec, else the last terminal with a level).
func specPrec(s *corpus.Spec) (tok map[string]int, assoc map[string]string, rule []int) {
	tok = map[string]int{}
	assoc = map[string]string{}
	for i, p := range s.Prec {
		for _, sym := range p.Syms {
			tok[sym] = i + 1
			assoc[sym] = p.Assoc
		}
	}
	rule = make([]int, len(s.Rules)+1)
	for k, r := range s.Rules {
		lvl := 0
		if r.Prec != "" {
			lvl = tok[r.Prec]
		} else {
			for _, x := range r.Rhs {
				if s.TokIndex(x) >= 0 && tok[x] > 0 {
					lvl = tok[x]
				}
			}
		}
		rule[k+1] = lvl
	}
	return
}

func c03Corpus(c *Ctx) []*corpus.Spec {
	specs := corpus.Fixed()
	n := 80
	if c.Thorough() {
		n = 200
	}
	specs = append(specs, corpus.Random(c.Seed, n)...)
	specs = append(specs, corpus.RandomRich(c.Seed, n/2)...)
	if c.Thorough() {
		specs = append(specs, corpus.Tiny()...)
	}
	return specs
}

// DumpAll runs ParseAndBuild natively on every spec and returns the artefacts.
func (c *Ctx) DumpAll(y *YGen, specs []*corpus.Spec) (map[string]YRes, error) {
	var jobs []YJob
	for _, s := range specs {
		jobs = append(jobs, YJob{Name: s.Name, Text: s.GoText(), Variant: "dump"})
	}
	res, err := y.Run(jobs, 10*time.Minute)
	if err != nil {
		return nil, err
	}
	out := map[string]YRes{}
	for _, r := range res {
		out[r.Name] = r
	}
	return out, nil
}

func C03(c *Ctx) {
	c.Level = "translation_validation"
	c.Explanation = "C03 (Mode V): the real generator runs natively on each corpus grammar and its LR(0) automaton, lookahead sets and conflict warnings are dumped; Z3's fixed-point engine (datalog) computes the least model of a Horn specification of LR(1) items merged by core and decides emptiness of the relations missing/extra (lookaheads) and missingWarn/spuriousWarn (conflict warnings vs. conflicts not resolved by the declared precedence)."
	y, err := c.BuildYGen()
	if err != nil {
		c.Inconclusive("%v", err)
		return
	}
	specs := c03Corpus(c)
	dumps, err := c.DumpAll(y, specs)
	if err != nil {
		c.Inconclusive("%v", err)
		return
	}
	c.Bound("%d corpus grammars (fixed families + %s seeded random); every (state, rule, terminal) atom of each", len(specs), "F-rand")
	c.Outside = append(c.Outside, "grammars outside the corpus", "cells with three or more candidate actions (warning set only required to be a subset of conflict cells)", "reduce/reduce conflicts between two rules that both carry precedence (left unspecified by the statement)")
	c.Assumptions = append(c.Assumptions, "Horn specification of LR(1) items in checks/horn.go:LALRSpec is the definition of LALR(1) lookaheads", "Z3 datalog engine (cross-checked with z3 5.1.0 in the thorough tier)")
	dir := c.Scratch()
	for _, s := range specs {
		r := dumps[s.Name]
		if !r.OK || r.Dump == nil {
			c.Inconclusive("generation failed for corpus grammar %s: %s%s", s.Name, r.Err, r.Panic)
			continue
		}
		c.Programs++
		c03One(c, s, r, dir)
	}
	// U: the SCC-based set propagation itself, on symbolic relations
	eng, err := LoadRepo("LALR")
	if err != nil {
		c.Inconclusive("%v", err)
		return
	}
	shapes := [][2]int{{3, 3}, {4, 4}}
	if c.Thorough() {
		shapes = append(shapes, [2]int{3, 5})
	}
	c.Harnesses = append(c.Harnesses, "harness/LALR/zz_verif_digraph.go:VerifDigraph")
	c.Bound("U: Digraph/Traverse/Union on every relation with (nodes, edges) in %v, visiting order fixed without loss of generality, singleton base sets", shapes)
	c.Explanation += " (U) LALR.Digraph/Traverse/Union run symbolically on relations whose edge endpoints and visiting order are solver choices; the computed sets must equal the reflexive-transitive closure (Warshall reference)."
	for _, sh := range shapes {
		c.RunSym(SymJob{Name: fmt.Sprintf("digraph n=%d E=%d", sh[0], sh[1]), Eng: eng, PkgPath: RepoModule + "/LALR", Entry: "VerifDigraph",
			Args: []int{sh[0], sh[1]}, Replay: ReplaySpec{Kind: "repo", PkgDirs: []string{"LALR"}}})
	}
	// base sets of size 3 with spare capacity / empty base sets: aliasing between result sets
	sized := [][3]int{{4, 3, 1003}, {3, 3, 113}, {3, 3, 311}}
	if c.Thorough() {
		sized = append(sized, [3]int{4, 4, 1003}, [3]int{5, 4, 11003}, [3]int{4, 4, 1133}, [3]int{4, 4, 3311}, [3]int{4, 3, 5121})
	}
	for _, sh := range sized {
		c.RunSym(SymJob{Name: fmt.Sprintf("digraph n=%d E=%d sizes=%d", sh[0], sh[1], sh[2]), Eng: eng, PkgPath: RepoModule + "/LALR", Entry: "VerifDigraphSized",
			Args: []int{sh[0], sh[1], sh[2]}, Replay: ReplaySpec{Kind: "repo", PkgDirs: []string{"LALR"}}})
	}
	// two chained closures (Read -> Follow): the second run appends to result sets of the first
	chains := [][4]int{{3, 2, 2, 333}, {3, 2, 2, 131}}
	if c.Thorough() {
		chains = append(chains, [4]int{3, 3, 2, 333}, [4]int{3, 2, 3, 333}, [4]int{4, 2, 2, 1133}, [4]int{3, 2, 2, 303}, [4]int{4, 2, 2, 2213})
	}
	for _, sh := range chains {
		c.RunSym(SymJob{Name: fmt.Sprintf("digraph chain n=%d E1=%d E2=%d sizes=%d", sh[0], sh[1], sh[2], sh[3]), Eng: eng, PkgPath: RepoModule + "/LALR", Entry: "VerifDigraphChain",
			Args: []int{sh[0], sh[1], sh[2], sh[3]}, Replay: ReplaySpec{Kind: "repo", PkgDirs: []string{"LALR"}}})
	}
	c.NeedCovers("cycle", "acyclic", "cycle in the second relation")
}

func c03One(c *Ctx, s *corpus.Spec, r YRes, dir string) {
	d := r.Dump
	h := NewHorn()
	GrammarFacts(h, d)
	LALRSpec(h)
	h.Rel("yla", 3)
	for _, la := range d.LA {
		for _, t := range la.Syms {
			h.Fact("yla", la.State, la.Rule, t)
		}
	}
	h.Rel("missing", 3)
	h.Rel("extra", 3)
	h.Rule("(missing q r t)", "(la q r t)", "(not (yla q r t))")
	h.Rule("(extra q r t)", "(yla q r t)", "(not (la q r t))")
	h.Query("missing")
	h.Query("extra")

	// conflicts vs warnings
	tokPrec, _, rulePrec := specPrec(s)
	h.Rel("precTok", 1)
	h.Rel("precRule", 1)
	for ref, lvl := range tokPrec {
		if lvl > 0 {
			if id := d.symByRef(ref); id >= 0 {
				h.Fact("precTok", id)
			}
		}
	}
	for k := 1; k < len(rulePrec); k++ {
		if rulePrec[k] > 0 {
			h.Fact("precRule", k)
		}
	}
	h.Rel("warn", 2)
	warned := map[[2]int]bool{}
	for _, m := range warnRe.FindAllStringSubmatch(r.Stdout, -1) {
		q, _ := strconv.Atoi(m[1])
		t, _ := strconv.Atoi(m[2])
		if !warned[[2]int{q, t}] {
			warned[[2]int{q, t}] = true
			h.Fact("warn", q, t)
		}
	}
	for _, rel := range []string{"shiftc", "unres", "multi", "conflictCell", "missingWarn", "spuriousWarn"} {
		h.Rel(rel, 2)
	}
	h.Rel("sr", 3)
	h.Rel("rr", 4)
	h.Rule("(shiftc q t)", "(goto q t q2)", "(term t)")
	h.Rule("(sr q t r)", "(shiftc q t)", "(la q r t)")
	h.Rule("(rr q t r r2)", "(la q r t)", "(la q r2 t)", "(rlt r r2)")
	h.Rule("(multi q t)", "(shiftc q t)", "(rr q t r r2)")
	h.Rule("(multi q t)", "(rr q t r r2)", "(rr q t r2 x)")
	h.Rule("(conflictCell q t)", "(sr q t r)")
	h.Rule("(conflictCell q t)", "(rr q t r r2)")
	h.Rule("(unres q t)", "(sr q t r)", "(not (precTok t))")
	h.Rule("(unres q t)", "(sr q t r)", "(not (precRule r))")
	// precedence is defined between a rule and a token: a reduce/reduce conflict is never resolved by it
	h.Rule("(unres q t)", "(rr q t r r2)")
	h.Rule("(missingWarn q t)", "(unres q t)", "(not (warn q t))", "(not (multi q t))")
	h.Rule("(spuriousWarn q t)", "(warn q t)", "(not (unres q t))", "(not (multi q t))")
	h.Rule("(spuriousWarn q t)", "(warn q t)", "(not (conflictCell q t))")
	h.Query("missingWarn")
	h.Query("spuriousWarn")
	h.Query("conflictCell")

	res, err := h.Run("/usr/bin/z3", dir, 120*time.Second)
	if err != nil {
		c.Inconclusive("%s: %v", s.Name, err)
		return
	}
	c.hornStats(h, res, 5)
	if c.Thorough() {
		res2, err2 := h.Run("z3-new", dir, 120*time.Second)
		if err2 != nil {
			c.Inconclusive("%s (z3 5.1.0): %v", s.Name, err2)
		} else {
			for _, q := range []string{"missing", "extra", "missingWarn", "spuriousWarn"} {
				if res.Sat[q] != res2.Sat[q] || len(res.Tuples[q]) != len(res2.Tuples[q]) {
					c.Inconclusive("%s: z3 4.8.12 and 5.1.0 disagree on query %s", s.Name, q)
				}
			}
			c.addExtraInt("cross_solver_checked", 4)
		}
	}
	nLA := 0
	for _, la := range d.LA {
		nLA += len(la.Syms)
	}
	c.AddSample(map[string]interface{}{"grammar": s.Name, "states": len(d.States), "rules": len(d.Rules), "yaccgo_lookahead_atoms": nLA,
		"conflict_cells": len(res.Tuples["conflictCell"]), "warnings": len(warned),
		"queries": map[string]bool{"missing": res.Sat["missing"], "extra": res.Sat["extra"], "missingWarn": res.Sat["missingWarn"], "spuriousWarn": res.Sat["spuriousWarn"]}})
	if len(d.States) > 1 && nLA > 0 {
		c.MarkDistinct(s.Name)
	}
	report := func(kind string, tuples [][]int, describe func(t []int) (string, string)) {
		seen := 0
		for _, t := range tuples {
			key, what := describe(t)
			if seen >= 3 {
				break
			}
			seen++
			path := c.writeHornReplay(s, kind, key, what, r)
			c.Report(key, what, path)
		}
	}
	report("extra", res.Tuples["extra"], func(t []int) (string, string) {
		key := fmt.Sprintf("la-extra:%s:%s:%s:%s", s.Name, d.stateText(t[0]), d.ruleText(t[1]), d.symName(t[2]))
		return key, fmt.Sprintf("lookahead %s attached to reduction %s in state %s of grammar %s is not an LALR(1) lookahead", d.symName(t[2]), d.ruleText(t[1]), d.stateText(t[0]), s.Name)
	})
	report("missing", res.Tuples["missing"], func(t []int) (string, string) {
		key := fmt.Sprintf("la-missing:%s:%s:%s:%s", s.Name, d.stateText(t[0]), d.ruleText(t[1]), d.symName(t[2]))
		return key, fmt.Sprintf("LALR(1) lookahead %s of reduction %s in state %s of grammar %s is missing", d.symName(t[2]), d.ruleText(t[1]), d.stateText(t[0]), s.Name)
	})
	report("missingWarn", res.Tuples["missingWarn"], func(t []int) (string, string) {
		key := fmt.Sprintf("warn-missing:%s:%s:%s", s.Name, d.stateText(t[0]), d.symName(t[1]))
		return key, fmt.Sprintf("unresolved conflict in state %s on %s of grammar %s is not reported", d.stateText(t[0]), d.symName(t[1]), s.Name)
	})
	report("spuriousWarn", res.Tuples["spuriousWarn"], func(t []int) (string, string) {
		key := fmt.Sprintf("warn-spurious:%s:%s:%s", s.Name, d.stateText(t[0]), d.symName(t[1]))
		return key, fmt.Sprintf("conflict warning for state %s on %s of grammar %s although no unresolved LALR(1) conflict exists there", d.stateText(t[0]), d.symName(t[1]), s.Name)
	})
}

func (c *Ctx) addExtraInt(k string, n int) {
	c.mu.Lock()
	defer c.mu.Unlock()
	v, _ := c.Extra[k].(int)
	c.Extra[k] = v + n
}

func (c *Ctx) hornStats(h *Horn, res *HornResult, queries int) {
	c.mu.Lock()
	defer c.mu.Unlock()
	c.Disagree += queries
	c.Evaluations += queries
	v, _ := c.Extra["horn_facts"].(int)
	c.Extra["horn_facts"] = v + h.Facts
	w, _ := c.Extra["horn_solver_s"].(float64)
	c.Extra["horn_solver_s"] = w + res.Time.Seconds()
	u, _ := c.Extra["horn_queries"].(int)
	c.Extra["horn_queries"] = u + queries
}

// writeHornReplay stores the grammar text and the finding; replay = re-run yaccgo on it.
func (c *Ctx) writeHornReplay(s *corpus.Spec, kind, key, what string, r YRes) string {
	path := fmt.Sprintf("%s/replays/%s/%s.json", VerifDir, c.ID, sanitize(kind+"_"+s.Name+"_"+key))
	WriteJSON(path, map[string]interface{}{
		"property": c.ID, "key": key, "what": what, "kind": "grammar",
		"grammar_name": s.Name, "grammar_text": s.GoText(), "yaccgo_stdout": tailStr(r.Stdout, 2000),
		"spec":   map[string]string{"kind": "grammar"},
		"replay": "write grammar_text to g.y and run: go run ./yaccgo debug g.y (in /repo); compare the printed LookAhead SET / warnings with the finding",
	})
	return path
}
