// Package checks holds the per-property drivers built on gosym.
package checks

import (
	"encoding/json"
	"fmt"
	"os"
	"path/filepath"
	"regexp"
	"sort"
	"strings"
	"time"

	"verif/tool/gosym"
)

const RepoModule = "github.com/acekingke/yaccgo"

// VerifDir is /verif, unless VERIF_HOME points at a snapshot (background runs only).
var VerifDir = func() string {
	if d := os.Getenv("VERIF_HOME"); d != "" {
		return d
	}
	return "/verif"
}()

// RepoDir is the tree under check: /repo, unless VERIF_REPO points at a scratch copy
// (used only to try seeded changes and for background runs; registered commands use /repo).
var RepoDir = repoDir()

func repoDir() string {
	if d := os.Getenv("VERIF_REPO"); d != "" {
		return d
	}
	return "/repo"
}

var pkgLine = regexp.MustCompile(`(?m)^package\s+(\w+)`)

// RepoOverlay returns the overlay that injects /verif/harness/<pkgDir>/*.go (plus the
// native runtime of the intrinsics) into /repo/<pkgDir>.
func RepoOverlay(pkgDirs ...string) (map[string][]byte, error) {
	ov := map[string][]byte{}
	rt, err := os.ReadFile(filepath.Join(VerifDir, "harness", "rt.go.tmpl"))
	if err != nil {
		return nil, err
	}
	for _, d := range pkgDirs {
		files, _ := filepath.Glob(filepath.Join(VerifDir, "harness", d, "*.go"))
		sort.Strings(files)
		if len(files) == 0 {
			return nil, fmt.Errorf("no harness files for %s", d)
		}
		pkgName := ""
		for _, f := range files {
			b, err := os.ReadFile(f)
			if err != nil {
				return nil, err
			}
			if m := pkgLine.FindSubmatch(b); m != nil && pkgName == "" {
				pkgName = string(m[1])
			}
			ov[filepath.Join(RepoDir, d, filepath.Base(f))] = b
		}
		ov[filepath.Join(RepoDir, d, "zz_verif_rt.go")] = []byte(strings.Replace(string(rt), "PKGNAME", pkgName, 1))
	}
	return ov, nil
}

// LoadRepo loads repo packages with harnesses injected.
func LoadRepo(pkgDirs ...string) (*gosym.Engine, error) {
	return LoadRepoExtra(nil, pkgDirs...)
}

// LoadRepoExtra additionally injects generated files (path relative to /repo -> content).
func LoadRepoExtra(extra map[string]string, pkgDirs ...string) (*gosym.Engine, error) {
	ov, err := RepoOverlay(pkgDirs...)
	if err != nil {
		return nil, err
	}
	for rel, content := range extra {
		ov[filepath.Join(RepoDir, rel)] = []byte(content)
	}
	var pats []string
	for _, d := range pkgDirs {
		pats = append(pats, "./"+d)
	}
	return gosym.Load(RepoDir, pats, ov, []string{RepoModule}, "")
}

func Ints(xs ...int) []gosym.Value {
	out := make([]gosym.Value, len(xs))
	for i, x := range xs {
		out[i] = gosym.ConstInt(64, int64(x))
	}
	return out
}

// WriteJSON writes v atomically.
func WriteJSON(path string, v interface{}) error {
	b, err := json.MarshalIndent(v, "", " ")
	if err != nil {
		return err
	}
	os.MkdirAll(filepath.Dir(path), 0o755)
	tmp := path + ".tmp"
	if err := os.WriteFile(tmp, b, 0o644); err != nil {
		return err
	}
	return os.Rename(tmp, path)
}

func since(t time.Time) float64 { return float64(time.Since(t).Milliseconds()) / 1000 }

func jsonUnmarshal(s string, v interface{}) error { return json.Unmarshal([]byte(s), v) }
