package checks

import (
	"bytes"
	"fmt"
	"os"
	"path/filepath"
	"strings"
	"time"
)

func init() { register("C19", C19) }

var c19Sites = []string{
	RepoModule + "/Parser.ParseAndBuild",
	"(*" + RepoModule + "/Builder.TemplateBuilder).buildConstPart",
	"(*" + RepoModule + "/Builder.TemplateBuilder).buildUionAndCode",
	"(*" + RepoModule + "/Builder.TemplateBuilder).buildAnalyTable",
	"(*" + RepoModule + "/Builder.TemplateBuilder).buildStateFunc",
	"(*" + RepoModule + "/Builder.TemplateBuilder).buildReduceFunc",
	"(*" + RepoModule + "/Builder.TemplateBuilder).buildTranslate",
	"(*" + RepoModule + "/Builder.TsBuilder).buildConstPart",
	"(*" + RepoModule + "/Builder.TsBuilder).buildUionAndCode",
	"(*" + RepoModule + "/Builder.TsBuilder).buildAnalyTable",
	"(*" + RepoModule + "/Builder.TsBuilder).buildStateFunc",
	"(*" + RepoModule + "/Builder.TsBuilder).buildReduceFunc",
	"(*" + RepoModule + "/Builder.TsBuilder).buildTranslate",
	RepoModule + "/Builder.actionCodeReplace",
	RepoModule + "/Builder.actionCodeReplaceTs",
	RepoModule + "/Builder.NewTemplateBuilder",
	RepoModule + "/Builder.NewTsBuilder",
}

const c19Bad = 7 // keep in step with verifBadInputs

func C19(c *Ctx) {
	c.Level = "model_checking"
	c.Explanation = "C19: the real bodies of TemplateGenFromString and TsGenFromString run in the engine on a valid grammar while every step that can fail because of the input (ParseAndBuild, the builder constructors, every build* method, actionCodeReplace) carries a symbolic fault flag that raises a panic at its entry; os.Create / WriteString / Close / template.Execute are event recorders. For every fault point: a failed generation has no create/write event; a successful one creates, writes (TS: the epilogue last) and closes. Six real input-caused failures (lexical, syntax, undefined symbol, unproductive nonterminal, out-of-range $n, truncated declaration) run concretely through the same entry points, in the engine and through the natively built CLI with a pre-existing output file whose bytes are compared."
	eng, err := LoadRepo("Builder")
	if err != nil {
		c.Inconclusive("%v", err)
		return
	}
	eng.FaultSites = map[string]bool{}
	known := 0
	for _, s := range c19Sites {
		eng.FaultSites[s] = true
	}
	for _, p := range eng.Pkgs {
		for _, m := range p.Members {
			_ = m
		}
	}
	c.Harnesses = append(c.Harnesses, "harness/Builder/zz_verif_fault.go:VerifGenFaults, VerifGenBadInput")
	c.Bound("fault points: %d function entries (symbolic flag each), both target languages; %d concrete input-caused failures x both languages", len(c19Sites), c19Bad)
	c.Outside = append(c.Outside, "failures of the file system itself (os.Create, write errors): not attributable to the input", "output variants -u / -o (same TemplateGenFromString body)", "whether the Go template ends with the epilogue (the template text is not executed; all Mode G checks compile the emitted files, which need the epilogue's GetToken)")
	for ts := 0; ts <= 1; ts++ {
		rep := c.RunSym(SymJob{Name: fmt.Sprintf("faults ts=%d", ts), Eng: eng, PkgPath: RepoModule + "/Builder", Entry: "VerifGenFaults",
			Args: []int{ts}, Replay: ReplaySpec{Kind: "repo", PkgDirs: []string{"Builder"}}, Need: []string{"succeeded"}, noNativeReplay: true})
		if rep != nil {
			for cv := range rep.Covers {
				if strings.HasPrefix(cv, "failed:") {
					known++
				}
			}
		}
		for w := 0; w < c19Bad; w++ {
			c.RunSym(SymJob{Name: fmt.Sprintf("bad input %d ts=%d", w, ts), Eng: eng, PkgPath: RepoModule + "/Builder", Entry: "VerifGenBadInput",
				Args: []int{ts, w}, Replay: ReplaySpec{Kind: "repo", PkgDirs: []string{"Builder"}}, Need: []string{"bad-input"}, noNativeReplay: true})
		}
		for w := 0; w <= 2; w++ {
			c.RunSym(SymJob{Name: fmt.Sprintf("shape %d ts=%d", w, ts), Eng: eng, PkgPath: RepoModule + "/Builder", Entry: "VerifGenShapes",
				Args: []int{ts, w}, Replay: ReplaySpec{Kind: "repo", PkgDirs: []string{"Builder"}}, Need: []string{"shape"}, noNativeReplay: true})
		}
		c.MarkDistinct(fmt.Sprintf("lang %d", ts))
	}
	c.Bound("optional parts of the file absent (no %%{ %%} section, empty epilogue, no second %%%%), both languages: the output equals the output with the part present minus that part (engine: data handed to the template / strings written; natively: bytes of the files)")
	c.Harnesses = append(c.Harnesses, "harness/Builder/zz_verif_fault.go:VerifGenShapes")
	if known < 12 {
		c.Inconclusive("only %d fault points were reached (function names changed?)", known)
	}
	c.Extra["fault_points_reached"] = known
	c19Native(c)
}

var c19BadTexts = []string{
	"%token A @\n%%\nS: A\n%%\n",
	"%token A\n%%\nS A\n%%\n",
	"%token A\n%start S\n%%\nS: A B\n%%\n",
	"%token A\n%start S\n%%\nS: A T\nT: T A\n%%\n",
	"%union {\n v int\n}\n%token <v> A\n%type <v> S\n%start S\n%%\nS: A { $$ = $9 }\n%%\n",
	"%token <",
	"%union {\n v int\n}\n%token <v> A\n%type <v> S\n%start S\n%%\nS: A { $$ = $0 }\n%%\n",
}

// c19Native: the same failing inputs through the real CLI with a pre-existing output file.
func c19Native(c *Ctx) {
	cli, err := c.BuildCLI()
	if err != nil {
		c.Inconclusive("%v", err)
		return
	}
	dir := c.Scratch()
	// longer than any generated file, so that a missing truncation leaves a stale tail
	marker := bytes.Repeat([]byte("PRE-EXISTING CONTENT 0123456789 abcdefghijklmnopqrstuvwxyz\n"), 6000)
	for li, lang := range []string{"go", "typescript"} {
		for i, text := range c19BadTexts {
			in := filepath.Join(dir, fmt.Sprintf("bad%d.y", i))
			out := filepath.Join(dir, fmt.Sprintf("out%d_%d.txt", li, i))
			os.WriteFile(in, []byte(text), 0o644)
			os.WriteFile(out, marker, 0o644)
			_, timedOut, _ := runCLI(cli, dir, 20*time.Second, "generate", lang, in, out)
			got, _ := os.ReadFile(out)
			c.Validated++
			if timedOut {
				continue // C13's subject
			}
			if !bytes.Equal(got, marker) {
				key := fmt.Sprintf("clobber:%s:%q", lang, text)
				path := filepath.Join(VerifDir, "replays", c.ID, sanitize(key)+".json")
				WriteJSON(path, map[string]interface{}{"property": c.ID, "key": key, "kind": "cli", "input_text": text, "language": lang,
					"replay": "write input_text to bad.y, put a file at out, run yaccgo generate " + lang + " bad.y out, compare out"})
				c.Report(key, fmt.Sprintf("yaccgo generate %s failed on %q but the pre-existing output file was modified", lang, text), path)
			}
		}
		// optional parts absent: the file is the complete file minus that part
		{
			pro := "\npackage gp\n// PROLOGUE-BODY\n"
			epi := "\nfunc GetToken(input string, valTy *ValType, pos *int) int { return -1 }\n// EPILOGUE-END"
			body := "%union {\n\tval int\n}\n%token <val> 'n'\n%type <val> L E\n%start L\n%%\nL : { $$ = 0 } | E L { $$ = $1 + $2 }\nE : 'n' { $$ = $1 }\n"
			gen := func(name, text string) []byte {
				in := filepath.Join(dir, name+".y")
				out := filepath.Join(dir, fmt.Sprintf("%s_%d.txt", name, li))
				os.WriteFile(in, []byte(text), 0o644)
				os.WriteFile(out, marker, 0o644)
				runCLI(cli, dir, 20*time.Second, "generate", lang, in, out)
				b, _ := os.ReadFile(out)
				return b
			}
			full := gen("full", "%{"+pro+"%}\n"+body+"%%"+epi)
			shapes := []struct{ name, text, removed string }{
				{"noprologue", "\n\n\n\n" + body + "%%" + epi, pro}, // blank lines keep the rule line numbers of the emitted comments
				{"emptyepilogue", "%{" + pro + "%}\n" + body + "%%", epi},
				{"nosecondsection", "%{" + pro + "%}\n" + body, epi},
			}
			for _, sh := range shapes {
				got := gen(sh.name, sh.text)
				c.Validated++
				want := strings.Replace(string(full), sh.removed, "", 1)
				if !strings.Contains(string(full), sh.removed) {
					c.Inconclusive("c19 native: the full output does not contain the %s text", sh.name)
					continue
				}
				if string(got) != want {
					key := "shape:" + sh.name + ":" + lang
					path := filepath.Join(VerifDir, "replays", c.ID, sanitize(key)+".json")
					WriteJSON(path, map[string]interface{}{"property": c.ID, "key": key, "kind": "cli", "input_text": sh.text, "language": lang,
						"replay": "generate this text and the same text with the missing part present; the first output must be the second minus that part"})
					c.Report(key, fmt.Sprintf("yaccgo generate %s on a grammar without an optional part (%s) does not produce the complete file (%d bytes instead of %d)", lang, sh.name, len(got), len(want)), path)
				}
			}
		}
		// success: complete file ending with the epilogue
		in := filepath.Join(dir, "ok.y")
		out := filepath.Join(dir, fmt.Sprintf("ok_%d.txt", li))
		okText := "%{\npackage gp\n%}\n%token 'n'\n%start L\n%%\nL : | E L\nE : 'n'\n%%\n// EPILOGUE-END"
		os.WriteFile(in, []byte(okText), 0o644)
		os.WriteFile(out, marker, 0o644)
		runCLI(cli, dir, 20*time.Second, "generate", lang, in, out)
		got, _ := os.ReadFile(out)
		c.Validated++
		if !strings.HasSuffix(strings.TrimSpace(string(got)), "// EPILOGUE-END") || bytes.Contains(got, marker) {
			key := "incomplete:" + lang
			path := filepath.Join(VerifDir, "replays", c.ID, sanitize(key)+".json")
			WriteJSON(path, map[string]interface{}{"property": c.ID, "key": key, "kind": "cli", "input_text": okText, "language": lang})
			c.Report(key, "successful generation ("+lang+") did not produce a complete file ending with the epilogue", path)
		}
	}
}
