module verif/tool

go 1.23

require golang.org/x/tools v0.29.0
