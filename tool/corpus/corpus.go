// Package corpus holds the abstract grammar specifications used as the "programs"
// quantifier, and renders them to yacc text for yaccgo.
package corpus

import (
	"fmt"
	"math/rand"
	"sort"
	"strings"
)

// Tok is a terminal. Name=="" means a character literal 'Char'.
type Tok struct {
	Name string
	Char rune
	Num  int    // explicit number (0 = automatic); ignored for literals
	Tag  string // "" or union field
	// Decl says how it is declared: "token" (default), "prec" (only in a precedence
	// line), "rule" (only used in a rule; literals only).
	Decl string
	// NumText, when set, is how the explicit number is spelled in the file (e.g. "0100")
	NumText string
}

func (t Tok) Ref() string {
	if t.Name != "" {
		return t.Name
	}
	return "'" + string(t.Char) + "'"
}

type PrecLine struct {
	Assoc string // left | right | nonassoc
	Syms  []string
}

type Rule struct {
	Lhs  string
	Rhs  []string // symbol refs: token Ref() or nonterminal name
	Prec string   // %prec symbol ref or ""
	K0   int      // $$ = K0 + sum Coef[i]*$i  (only when the lhs carries a value)
	Coef []int    // per rhs position (0 for symbols without a value)
	// Style of the action text: 0 one assignment; 1 "$$ = K0; $$ = $$ + ..." (reads after
	// the first write); 2 no assignment at all (the value must be the zero value).
	Style int
	// ActExtra: statements placed in the action after verifReduce (C10: action bodies
	// with quotes, strings and nested blocks)
	ActExtra string
	// Raw, when set, is the complete action text (no verifReduce call: the reduction does not
	// appear in the log; only harnesses that compare variants with each other use such grammars)
	Raw string
	// Mid is a mid-rule action written before right-hand-side symbol MidPos (1 <= MidPos < len(Rhs))
	Mid    string
	MidPos int
}

type Spec struct {
	Name        string
	Toks        []Tok
	Prec        []PrecLine
	NTs         []string          // nonterminals in order of first definition
	NTTag       map[string]string // union field per nonterminal ("" = no value)
	Start       string
	Rules       []Rule
	Tags        []string // free-form classification: "lalr1", "conflict-sr", "conflict-rr", "lr1only", "expr", ...
	NoStartDecl bool     // omit %start (grammar then must name its start symbol "start")
	MinN        int      // minimal number of symbolic tokens needed to reach the interesting part
	// ExtraDecl are raw declaration lines rendered before the token lines (earlier, partial
	// declarations of tokens that are declared completely later)
	ExtraDecl []string
	// SameActions: the actions log the driver's own rule number (verifReduce(reduceIndex)) so
	// that several rules can have byte-identical action text; needs yaccgo's rule numbers to
	// be the file order (checked by the driver on the native dump)
	SameActions bool
	// PrecTag: an optional <tag> written on precedence line i
	PrecTag map[int]string
	// GroupTokens: several tokens per %token line
	GroupTokens bool
}

// precLineNumber: the explicit number of a named token that is declared by a precedence
// line only (it is written there, after the name); 0 otherwise.
func (s *Spec) precLineNumber(ref string) int {
	for _, t := range s.Toks {
		if t.Name != "" && t.Name == ref && t.Decl == "prec" {
			return t.Num
		}
	}
	return 0
}

// declLine is one %token line: an optional tag and the words after it (names, numbers, literals).
type declLine struct {
	Tag   string
	Items []string
}

// tokenDeclLines lists the %token lines. Normally one token per line; with GroupTokens,
// consecutive tokens with the same tag share a line - a character literal only after a numbered
// name or another literal (yaccgo reads a literal right after a bare name as that name's alias).
func (s *Spec) tokenDeclLines() []declLine {
	var out []declLine
	lastBare := false
	for _, t := range s.Toks {
		if t.Decl == "prec" || t.Decl == "rule" || t.Decl == "extra" {
			continue
		}
		items := []string{t.Ref()}
		bare := t.Name != "" && t.Num == 0
		if t.Name != "" && t.Num != 0 {
			if t.NumText != "" {
				items = append(items, t.NumText)
			} else {
				items = append(items, fmt.Sprint(t.Num))
			}
		}
		if s.GroupTokens && len(out) > 0 && out[len(out)-1].Tag == t.Tag && !(t.Name == "" && lastBare) {
			out[len(out)-1].Items = append(out[len(out)-1].Items, items...)
		} else {
			out = append(out, declLine{Tag: t.Tag, Items: items})
		}
		lastBare = bare
	}
	return out
}

func (s *Spec) HasTag(t string) bool {
	for _, x := range s.Tags {
		if x == t {
			return true
		}
	}
	return false
}

func (s *Spec) TokIndex(ref string) int {
	for i, t := range s.Toks {
		if t.Ref() == ref {
			return i
		}
	}
	return -1
}

func (s *Spec) NTIndex(name string) int {
	for i, n := range s.NTs {
		if n == name {
			return i
		}
	}
	return -1
}

// SymIndex: terminals 0..T-1, nonterminals T..T+N-1, -1 unknown.
func (s *Spec) SymIndex(ref string) int {
	if i := s.TokIndex(ref); i >= 0 {
		return i
	}
	if i := s.NTIndex(ref); i >= 0 {
		return len(s.Toks) + i
	}
	return -1
}

func (s *Spec) MaxRhs() int {
	m := 0
	for _, r := range s.Rules {
		if len(r.Rhs) > m {
			m = len(r.Rhs)
		}
	}
	return m
}

// tagOf returns the union field of a symbol ref.
func (s *Spec) tagOf(ref string) string {
	if i := s.TokIndex(ref); i >= 0 {
		return s.Toks[i].Tag
	}
	return s.NTTag[ref]
}

// Finish fills derived fields: NT list, default coefficients.
func (s *Spec) Finish() *Spec {
	if s.NTTag == nil {
		s.NTTag = map[string]string{}
	}
	seen := map[string]bool{}
	s.NTs = nil
	for _, r := range s.Rules {
		if !seen[r.Lhs] {
			seen[r.Lhs] = true
			s.NTs = append(s.NTs, r.Lhs)
		}
	}
	if s.Start == "" {
		s.Start = s.Rules[0].Lhs
	}
	// distinct small coefficients, deterministic
	for k := range s.Rules {
		r := &s.Rules[k]
		if r.Coef != nil {
			continue
		}
		defer func(r *Rule) {
			if r.Style == 2 {
				r.K0 = 0
			}
		}(r)
		r.K0 = 3 + 2*k
		r.Coef = make([]int, len(r.Rhs))
		switch {
		case k%4 == 2:
			r.Style = 1
		case k%5 == 4 && len(r.Rhs) > 0:
			r.Style = 2
		}
		for i, sym := range r.Rhs {
			if s.tagOf(sym) != "" && r.Style != 2 {
				r.Coef[i] = []int{2, 3, 5, 7, 11}[(i+k)%5]
				if (i+k)%3 == 1 {
					r.Coef[i] = -r.Coef[i]
				}
			}
		}
	}
	return s
}

// Action renders the semantic action of rule k (1-based, file order) for Go or TS.
func (s *Spec) Action(k int, ts bool) string {
	r := s.Rules[k-1]
	if r.Raw != "" {
		return r.Raw
	}
	var sb strings.Builder
	if s.SameActions {
		sb.WriteString("{ verifReduce(reduceIndex)")
	} else {
		fmt.Fprintf(&sb, "{ verifReduce(%d)", k)
	}
	if r.ActExtra != "" {
		sb.WriteString("; " + r.ActExtra)
	}
	if s.NTTag[r.Lhs] != "" && r.Style == 2 && ts {
		// a TypeScript value has no zero default: the action states it
		sb.WriteString("; $$ = 0")
	}
	if s.NTTag[r.Lhs] != "" && r.Style != 2 {
		fmt.Fprintf(&sb, "; $$ = %d", r.K0)
		if r.Style == 1 {
			sb.WriteString("; $$ = $$")
		}
		for i, c := range r.Coef {
			if c == 0 {
				continue
			}
			if c < 0 {
				fmt.Fprintf(&sb, " - %d*$%d", -c, i+1)
			} else {
				fmt.Fprintf(&sb, " + %d*$%d", c, i+1)
			}
		}
	}
	sb.WriteString(" }")
	return sb.String()
}

// RenderOpts controls the textual rendering (layout is the subject of C10).
type RenderOpts struct {
	TS       bool
	Prologue string // inside %{ %}
	Epilogue string // after the second %%
	Union    string // body of %union
	NoAction bool
	Sep      string // separator between tokens in rules (default " ")
	Semi     bool   // terminate rules with ';'
}

const GoPrologue = "\npackage gp\n\nimport \"fmt\"\n\nvar _ = fmt.Sprint\n"
const GoEpilogue = "\nfunc GetToken(input string, valTy *ValType, pos *int) int { return verifGetToken(valTy, pos) }\n"
const GoUnion = "\n\tval int\n\talt int\n"

func (s *Spec) Render(o RenderOpts) string {
	if o.Sep == "" {
		o.Sep = " "
	}
	var sb strings.Builder
	sb.WriteString("%{" + o.Prologue + "%}\n")
	if o.Union != "" {
		sb.WriteString("%union {" + o.Union + "}\n")
	}
	for _, l := range s.ExtraDecl {
		sb.WriteString(l + "\n")
	}
	// token declarations
	for _, dl := range s.tokenDeclLines() {
		sb.WriteString("%token ")
		if dl.Tag != "" {
			sb.WriteString("<" + dl.Tag + "> ")
		}
		sb.WriteString(strings.Join(dl.Items, " ") + "\n")
	}
	for pi, p := range s.Prec {
		sb.WriteString("%" + p.Assoc)
		if tag := s.PrecTag[pi]; tag != "" {
			sb.WriteString(" <" + tag + ">")
		}
		for _, sym := range p.Syms {
			sb.WriteString(" " + sym)
			if n := s.precLineNumber(sym); n != 0 {
				// yacc: a token number may follow the name on a precedence line
				fmt.Fprintf(&sb, " %d", n)
			}
		}
		sb.WriteString("\n")
	}
	// %type lines grouped by tag
	byTag := map[string][]string{}
	for _, n := range s.NTs {
		if tag := s.NTTag[n]; tag != "" {
			byTag[tag] = append(byTag[tag], n)
		}
	}
	var tags []string
	for t := range byTag {
		tags = append(tags, t)
	}
	sort.Strings(tags)
	for _, t := range tags {
		sb.WriteString("%type <" + t + "> " + strings.Join(byTag[t], " ") + "\n")
	}
	if !s.NoStartDecl {
		sb.WriteString("%start " + s.Start + "\n")
	}
	sb.WriteString("%%\n")
	// rules grouped by consecutive lhs
	for k := 0; k < len(s.Rules); {
		lhs := s.Rules[k].Lhs
		sb.WriteString(lhs + o.Sep + ":")
		first := true
		for k < len(s.Rules) && s.Rules[k].Lhs == lhs {
			r := s.Rules[k]
			if !first {
				sb.WriteString("\n  |")
			}
			first = false
			for i, sym := range r.Rhs {
				if r.Mid != "" && i == r.MidPos {
					sb.WriteString(o.Sep + r.Mid)
				}
				sb.WriteString(o.Sep + sym)
			}
			if r.Prec != "" {
				sb.WriteString(o.Sep + "%prec " + r.Prec)
			}
			if !o.NoAction {
				sb.WriteString(o.Sep + s.Action(k+1, o.TS))
			}
			k++
		}
		if o.Semi {
			sb.WriteString("\n  ;")
		}
		sb.WriteString("\n")
	}
	sb.WriteString("%%\n")
	sb.WriteString(o.Epilogue)
	return sb.String()
}

const TSPrologue = "\n\"use strict\";\n"
const TSUnion = "\n\tval :number;\n\talt :number;\n"
const TSEpilogue = `
var verifTok :number[] = [];
var verifVal :number[] = [];
var verifLog :number[] = [];
var verifRequests = 0;
var verifUseIdx = false;
function verifReduce(k :number) { verifLog.push(k) }
function verifInputText() :string {
	let s = ""
	let i = 0
	while (i < verifTok.length) {
		s = s + "x"
		i = i + 1
	}
	return s
}
function GetToken(input :string, model:{ValType :ValType, pos :number}) :number {
	verifRequests++
	let i = model.pos
	if (i >= verifTok.length) {
		return -1
	}
	model.pos = i + 1
	model.ValType = new ValType()
	model.ValType.val = verifVal[i]
	model.ValType.alt = verifVal[i] + 1000
	if (verifUseIdx) {
		let k = verifTok[i]
		if (k == -1) {
			return -1
		}
		if (k < 0 || k >= verifCodes.length) {
			return 987654321
		}
		return verifCodes[k]
	}
	return verifTok[i]
}
`

func (s *Spec) TSText() string {
	var codes []string
	for _, t := range s.Toks {
		if t.Name == "" {
			codes = append(codes, fmt.Sprint(int(t.Char)))
		} else {
			codes = append(codes, t.Name)
		}
	}
	ep := TSEpilogue + "var verifCodes :number[] = [" + strings.Join(codes, ", ") + "];\n" + s.tsSpecTables() + TSStepEpilogue
	return s.Render(RenderOpts{TS: true, Prologue: TSPrologue, Epilogue: ep, Union: TSUnion})
}

// tsSpecTables renders the rule tables of the specification for the TypeScript step harness
// (rule numbers in file order, symbols in specification numbering: terminals, then nonterminals).
func (s *Spec) tsSpecTables() string {
	tagNo := map[string]int{"": 0, "val": 1, "alt": 2}
	var lhs, k0, tags []string
	rhs, coef := []string{"[]"}, []string{"[]"}
	lhs, k0 = append(lhs, "0"), append(k0, "0")
	for _, r := range s.Rules {
		lhs = append(lhs, fmt.Sprint(s.SymIndex(r.Lhs)))
		k := r.K0
		if s.NTTag[r.Lhs] == "" {
			k = 0
		}
		k0 = append(k0, fmt.Sprint(k))
		var xs, cs []string
		for i, x := range r.Rhs {
			xs = append(xs, fmt.Sprint(s.SymIndex(x)))
			c := r.Coef[i]
			if s.NTTag[r.Lhs] == "" {
				c = 0
			}
			cs = append(cs, fmt.Sprint(c))
		}
		rhs = append(rhs, "["+strings.Join(xs, ", ")+"]")
		coef = append(coef, "["+strings.Join(cs, ", ")+"]")
	}
	for _, t := range s.Toks {
		tags = append(tags, fmt.Sprint(tagNo[t.Tag]))
	}
	for _, n := range s.NTs {
		tags = append(tags, fmt.Sprint(tagNo[s.NTTag[n]]))
	}
	return "var verifRuleLhs :number[] = [" + strings.Join(lhs, ", ") + "];\n" +
		"var verifRuleRhs :number[][] = [" + strings.Join(rhs, ", ") + "];\n" +
		"var verifK0 :number[] = [" + strings.Join(k0, ", ") + "];\n" +
		"var verifCoef :number[][] = [" + strings.Join(coef, ", ") + "];\n" +
		"var verifSymTag :number[] = [" + strings.Join(tags, ", ") + "];\n" +
		fmt.Sprintf("var verifNTerm = %d;\nvar verifStartSym = %d;\n", len(s.Toks), s.SymIndex(s.Start))
}

// TSStepEpilogue is the step-lemma harness for the TypeScript driver, written in the emitted
// subset so that tsmini (symbolically) and node (natively, for replays) run the same text.
// verifStep returns 0 when the driver's macro-step equals the LR machine's, 100 when the
// configuration handed in is not a path of the automaton, and a failure code otherwise.
const TSStepEpilogue = `
function verifAct(q :number, a :number) :number {
	return new StateSym(q, 0).Action(a)
}
function verifField(v :ValType, tag :number) :number {
	if (tag == 1) { return v.val }
	if (tag == 2) { return v.alt }
	return 0
}
function verifMkSym(q :number, x :number, v :number, w :number) :StateSym {
	let s = new StateSym(q, x)
	s.ValType = new ValType()
	s.ValType.val = v
	s.ValType.alt = w
	return s
}
// n entries of the stack (entry 0 is the bottom), the arrays hold all slots (stale ones after n):
// sq states, sid yaccgo symbol ids, sx specification symbols (-1 for stale slots), sv / sw the two value fields;
// ids maps specification symbols to yaccgo ids; tok / tv the lookahead code and its value
function verifStep(n :number, sq :number[], sid :number[], sx :number[], sv :number[], sw :number[], ids :number[], tok :number, tv :number) :number {
	let a :StateSym[] = []
	let i = 0
	while (i < sq.length) {
		if (i == 0) {
			a.push(new StateSym(0, 1))
		} else {
			a.push(verifMkSym(sq[i], sid[i], sv[i], sw[i]))
		}
		i = i + 1
	}
	StateSymStack = a
	StackPointer = n
	verifTok = [tok, 987654321]
	verifVal = [tv, 0]
	verifLog = []
	verifRequests = 0
	verifUseIdx = false
	let res = Parser("xx")
	let la = translate(tok)
	let laSpec = -1
	i = 0
	while (i < verifNTerm) {
		if (ids[i] == la) { laSpec = i }
		i = i + 1
	}
	let rs :number[] = []
	let rx :number[] = []
	let rv :number[] = []
	i = 0
	while (i < n) {
		rs.push(sq[i])
		rx.push(sx[i])
		if (i == 0) {
			rv.push(0)
		} else {
			if (verifSymTag[sx[i]] == 2) { rv.push(sw[i]) } else { rv.push(sv[i]) }
		}
		i = i + 1
	}
	rs[0] = 0
	let li = 0
	while (true) {
		let top = rs.length - 1
		let act = verifAct(rs[top], la)
		if (act == ERROR_ACTION) {
			if (res !== null) { return 1 }
			if (verifRequests != 1) { return 2 }
			if (li != verifLog.length) { return 3 }
			return 0
		}
		if (act == ACCEPT_ACTION) {
			if (res === null) { return 4 }
			if (verifRequests != 1) { return 5 }
			if (li != verifLog.length) { return 3 }
			if (top >= 1 && rx[top] == verifStartSym && verifSymTag[rx[top]] != 0) {
				if (verifField(res, verifSymTag[rx[top]]) != rv[top]) { return 6 }
			}
			return 0
		}
		if (act > 0) {
			if (laSpec < 0) { return 7 }
			if (verifRequests != 2) { return 8 }
			if (li != verifLog.length) { return 3 }
			rs.push(act)
			rx.push(laSpec)
			if (verifSymTag[laSpec] == 2) { rv.push(tv + 1000) } else { rv.push(tv) }
			break
		}
		let k = 0 - act
		if (li >= verifLog.length) { return 9 }
		if (verifLog[li] != k) { return 10 }
		if (k < 1 || k >= verifRuleLhs.length) { return 10 }
		li = li + 1
		let rhs = verifRuleRhs[k]
		let m = rhs.length
		if (m > top) { return 100 }
		let val = verifK0[k]
		i = 0
		while (i < m) {
			if (rx[top - m + 1 + i] != rhs[i]) { return 100 }
			if (verifCoef[k][i] != 0) {
				val = val + verifCoef[k][i] * rv[top - m + 1 + i]
			}
			i = i + 1
		}
		let lhs = verifRuleLhs[k]
		let g = verifAct(rs[top - m], ids[lhs])
		if (g <= 0 || g == ERROR_ACTION || g == ACCEPT_ACTION) { return 100 }
		i = 0
		while (i < m) {
			rs.pop()
			rx.pop()
			rv.pop()
			i = i + 1
		}
		rs.push(g)
		rx.push(lhs)
		rv.push(val)
	}
	// after the shift the driver met the stop code: its stack is the machine's stack
	if (StackPointer != rs.length) { return 11 }
	if (StackPointer > StateSymStack.length) { return 11 }
	i = 1
	while (i < rs.length) {
		let e = StateSymStack[i]
		if (e.Yystate != rs[i]) { return 12 }
		if (e.YySymIndex != ids[rx[i]]) { return 13 }
		if (verifSymTag[rx[i]] != 0) {
			if (verifField(e.ValType, verifSymTag[rx[i]]) != rv[i]) { return 14 }
		}
		i = i + 1
	}
	return 0
}
`

func (s *Spec) GoText() string {
	return s.Render(RenderOpts{Prologue: GoPrologue, Epilogue: GoEpilogue, Union: GoUnion})
}

// ---- the corpus ----

func lit(c rune) Tok              { return Tok{Char: c} }
func litV(c rune) Tok             { return Tok{Char: c, Tag: "val"} }
func named(n string, num int) Tok { return Tok{Name: n, Num: num, Tag: "val"} }

func rules(lines ...string) []Rule {
	var out []Rule
	for _, l := range lines {
		parts := strings.SplitN(l, ":", 2)
		lhs := strings.TrimSpace(parts[0])
		for _, alt := range strings.Split(parts[1], "|") {
			f := strings.Fields(alt)
			r := Rule{Lhs: lhs}
			for i := 0; i < len(f); i++ {
				if f[i] == "%prec" {
					r.Prec = f[i+1]
					i++
					continue
				}
				r.Rhs = append(r.Rhs, f[i])
			}
			out = append(out, r)
		}
	}
	return out
}

func allVal(nts ...string) map[string]string {
	m := map[string]string{}
	for _, n := range nts {
		m[n] = "val"
	}
	return m
}

// Expr builds the ambiguous expression grammar under a precedence table.
func Expr(name string, levels []PrecLine, ops []byte, unary bool) *Spec {
	s := &Spec{Name: name, Tags: []string{"expr", "conflict-resolved"}}
	s.Toks = append(s.Toks, named("NUM", 300))
	for _, op := range ops {
		s.Toks = append(s.Toks, Tok{Char: rune(op), Decl: "prec"})
	}
	s.Toks = append(s.Toks, lit('('), lit(')'))
	s.Prec = levels
	var alts []string
	for _, op := range ops {
		alts = append(alts, fmt.Sprintf("E '%c' E", op))
	}
	if unary {
		s.Toks = append(s.Toks, Tok{Name: "UMINUS", Decl: "prec"})
		alts = append(alts, "'-' E %prec UMINUS")
	}
	alts = append(alts, "'(' E ')'", "NUM")
	s.Rules = rules("E: " + strings.Join(alts, " | "))
	s.NTTag = allVal("E")
	return s.Finish()
}

func Fixed() []*Spec {
	var out []*Spec
	add := func(s *Spec) { out = append(out, s.Finish()) }

	// F-expr
	add(Expr("expr_std", []PrecLine{{"left", []string{"'+'", "'-'"}}, {"left", []string{"'*'"}}, {"right", []string{"UMINUS"}}}, []byte{'+', '-', '*'}, true))
	add(Expr("expr_right", []PrecLine{{"left", []string{"'+'"}}, {"right", []string{"'^'"}}}, []byte{'+', '^'}, false))
	add(Expr("expr_nonassoc", []PrecLine{{"nonassoc", []string{"'<'"}}, {"left", []string{"'+'"}}}, []byte{'<', '+'}, false))
	// the %nonassoc level on top: the state after `E '<' E` has reductions and the error cells of the level only
	add(Expr("expr_nonassoc_top", []PrecLine{{"left", []string{"'+'", "'-'"}}, {"left", []string{"'*'"}}, {"nonassoc", []string{"'<'", "'>'"}}}, []byte{'+', '-', '*', '<', '>'}, false))

	// %precedence (a level without associativity) for the unary operator
	add(Expr("expr_precedence", []PrecLine{{"left", []string{"'+'", "'-'"}}, {"left", []string{"'*'"}}, {"precedence", []string{"UMINUS"}}}, []byte{'+', '-', '*'}, true))
	// the %prec alternative first: later alternatives must not inherit its annotation
	{
		s := Expr("expr_unary_first", []PrecLine{{"left", []string{"'+'"}}, {"left", []string{"'*'"}}, {"right", []string{"UMINUS"}}}, []byte{'+', '*'}, false)
		s.Toks = append(s.Toks, Tok{Name: "UMINUS", Decl: "prec"}, Tok{Char: '-'})
		s.Rules = rules("E: '-' E %prec UMINUS | E '+' E | E '*' E | '(' E ')' | NUM")
		for k := range s.Rules {
			s.Rules[k].Coef = nil
		}
		add(s)
	}
	// a precedence line that declares a literal and then a named token
	{
		s := &Spec{Name: "prec_mixed", Tags: []string{"expr-like", "conflict-resolved"},
			Toks:  []Tok{named("NUM", 303), {Char: '<', Decl: "prec"}, {Name: "LE", Decl: "prec"}, {Char: '+', Decl: "prec"}, {Name: "PLUS2", Decl: "prec"}},
			Prec:  []PrecLine{{"nonassoc", []string{"'<'", "LE"}}, {"left", []string{"PLUS2", "'+'"}}},
			Rules: rules("E: E '<' E | E LE E | E '+' E | E PLUS2 E | NUM"),
			NTTag: allVal("E")}
		add(s)
	}
	// unambiguous E/T/F
	add(&Spec{Name: "etf", Tags: []string{"lalr1"},
		Toks:  []Tok{named("NUM", 301), lit('+'), lit('*'), lit('('), lit(')')},
		Rules: rules("E: E '+' T | T", "T: T '*' F | F", "F: '(' E ')' | NUM"),
		NTTag: map[string]string{"E": "val", "T": "alt", "F": "val"}})

	// F-sep
	add(&Spec{Name: "lvalue", Tags: []string{"lalr1", "not-slr"},
		Toks:  []Tok{named("ID", 0), lit('='), lit('*')},
		Rules: rules("S: L '=' R | R", "L: '*' R | ID", "R: L"),
		NTTag: allVal("S", "L", "R")})
	// a goto target with two kernel items whose first item alone is the kernel of an earlier
	// state (rules of the start symbol written last): a state looked up by a partial kernel
	// merges the two contexts
	add(&Spec{Name: "partial_kernel", Tags: []string{"lalr1"}, Start: "S",
		Toks:  []Tok{lit('a'), lit('b'), litV('x'), lit('=')},
		Rules: rules("R: L", "L: 'x'", "S: 'a' R | 'b' L '=' R | 'b' R"),
		NTTag: allVal("S", "L", "R")})
	add(&Spec{Name: "sep_ab", Tags: []string{"lalr1", "not-slr"},
		Toks:  []Tok{lit('a'), lit('b'), lit('c'), lit('x'), lit('y')},
		Rules: rules("S: 'a' A 'x' | 'a' B 'y' | 'b' A 'y'", "A: 'c'", "B: 'c'")})
	add(&Spec{Name: "sep_ba", Tags: []string{"lalr1", "not-slr"},
		Toks:  []Tok{lit('a'), lit('b'), lit('c'), lit('x'), lit('y')},
		Rules: rules("S: 'a' B 'x' | 'a' A 'y' | 'b' B 'y'", "A: 'c'", "B: 'c'")})
	add(&Spec{Name: "sep_d", Tags: []string{"lalr1", "not-slr"},
		Toks:  []Tok{lit('a'), lit('b'), lit('c'), lit('d')},
		Rules: rules("S: A 'a' | 'b' A 'c' | 'd' 'c' | 'b' 'd' 'a'", "A: 'd'")})
	// LALR(1) but not NQLALR(1) (DeRemer & Pennello 1982): follow sets of transitions that
	// share a target state must not be merged
	add(&Spec{Name: "nqlalr", Tags: []string{"lalr1", "not-slr", "not-nqlalr"},
		Toks:  []Tok{lit('a'), lit('b'), lit('c'), lit('d'), lit('g')},
		Rules: rules("S: 'a' 'g' 'd' | 'a' A 'c' | 'b' A 'd' | 'b' 'g' 'c'", "A: B", "B: 'g'")})
	add(&Spec{Name: "lr1only", Tags: []string{"lr1only", "conflict-rr"},
		Toks:  []Tok{lit('a'), lit('b'), lit('c'), lit('d'), lit('e')},
		Rules: rules("S: 'a' A 'd' | 'b' B 'd' | 'a' B 'e' | 'b' A 'e'", "A: 'c'", "B: 'c'")})

	// F-null
	add(&Spec{Name: "list_null", Tags: []string{"lalr1", "nullable"},
		Toks:  []Tok{litV('n')},
		Rules: rules("L: | E L", "E: 'n'"),
		NTTag: allVal("L", "E")})
	add(&Spec{Name: "opt_mid", Tags: []string{"lalr1", "nullable"},
		Toks:  []Tok{litV('a'), litV('b'), litV('c')},
		Rules: rules("S: A B 'c'", "A: | 'a'", "B: | 'b' B"),
		NTTag: map[string]string{"S": "val", "A": "alt", "B": "val"}})
	add(&Spec{Name: "unit_chain", Tags: []string{"lalr1"},
		Toks:  []Tok{named("X", 310), lit(',')},
		Rules: rules("S: A", "A: B", "B: C | B ',' C", "C: X"),
		NTTag: allVal("S", "A", "B", "C")})
	add(&Spec{Name: "nested_null", Tags: []string{"lalr1", "nullable"},
		Toks:  []Tok{litV('x'), lit(';')},
		Rules: rules("P: Q ';'", "Q: R R", "R: | 'x'"),
		NTTag: allVal("P", "Q", "R")})
	add(&Spec{Name: "len4", Tags: []string{"lalr1"},
		Toks:  []Tok{litV('p'), litV('q'), named("W", 320)},
		Rules: rules("S: 'p' S 'q' W | W"),
		NTTag: allVal("S")})

	// consecutive nullable symbols in the middle of a rule: optional (eps | t) and marker (eps only)
	for _, combo := range []string{"OO", "OM", "MO", "MM", "OMO"} {
		sp := &Spec{Name: "nullseq_" + combo, Tags: []string{"lalr1", "nullable"}, Toks: []Tok{litV('k'), litV('v')}}
		rhs := "K"
		var rest []string
		for i, ch := range combo {
			nt := fmt.Sprintf("N%d", i+1)
			rhs += " " + nt
			if ch == 'O' {
				tk := byte('f' + i)
				sp.Toks = append(sp.Toks, litV(rune(tk)))
				rest = append(rest, fmt.Sprintf("%s: | '%c'", nt, tk))
			} else {
				rest = append(rest, nt+": ")
			}
		}
		sp.Rules = rules(append([]string{"S: " + rhs + " 'v'", "K: 'k'"}, rest...)...)
		sp.NTTag = allVal("S", "K")
		add(sp)
	}
	// left recursion with the base alternative first, three levels
	add(&Spec{Name: "etf_basefirst", Tags: []string{"lalr1"},
		Toks:  []Tok{named("NUM", 302), lit('+'), lit('*'), lit('('), lit(')')},
		Rules: rules("E: T | E '+' T", "T: F | T '*' F", "F: NUM | '(' E ')'"),
		NTTag: allVal("E", "T", "F")})
	// two reductions looking back to one transition whose follow set has three elements, each
	// with a further successor of its own (result sets must not share storage)
	add(&Spec{Name: "shared_lookback", Tags: []string{"lalr1"},
		Toks:  []Tok{lit('x'), lit('y'), lit('z'), lit('a'), lit('b'), lit('p'), lit('q'), lit('r'), lit('s'), lit('t'), lit('u')},
		Rules: rules("S: 'x' A 'p' | 'x' A 'q' | 'x' A 'r' | 'y' A 's' | 'y' 'b' 'u' | 'z' A 't' | 'z' 'a' 'u'", "A: 'a' | 'b'")})
	// a rule with ten right-hand-side symbols: $10 is a two-digit reference
	add(&Spec{Name: "len10", Tags: []string{"lalr1"}, MinN: 10,
		Toks:  []Tok{litV('a'), litV('b'), litV('c'), litV('d'), litV('e'), litV('f'), litV('g'), litV('h'), litV('i'), litV('j')},
		Rules: rules("S: 'a' 'b' 'c' 'd' 'e' 'f' 'g' 'h' 'i' X | 'j'", "X: 'j'"),
		NTTag: allVal("S", "X")})
	// more than ten rules: two-digit rule numbers in ReduceFunc / trace / tables
	add(&Spec{Name: "stmts12", Tags: []string{"lalr1"},
		Toks:  []Tok{named("ID", 400), named("NUM", 401), lit(';'), lit('='), lit('+'), lit('('), lit(')'), lit('{'), lit('}'), lit('!'), lit('?')},
		Rules: rules("P: L", "L: | L S", "S: ID '=' E ';' | '{' L '}' | '?' E S | ';'", "E: E '+' T | T", "T: ID | NUM | '(' E ')' | '!' T"),
		NTTag: map[string]string{"P": "val", "L": "val", "S": "alt", "E": "val", "T": "val"}})
	// a token declared in two steps: first bare (and once with another tag), later with tag and number
	add(&Spec{Name: "redecl", Tags: []string{"lalr1"},
		ExtraDecl: []string{"%token REG", "%token <val> IDX"},
		Toks:      []Tok{{Name: "REG", Num: 330, Tag: "alt"}, {Name: "IDX", Num: 331, Tag: "alt"}, named("NUM", 332), lit('+'), lit('[')},
		Rules:     rules("S: S '+' T | T", "T: REG | NUM | REG '[' IDX"),
		NTTag:     allVal("S", "T")})
	// so small that the generator decides packing is not worthwhile
	add(&Spec{Name: "rlist", Tags: []string{"lalr1", "nullable"},
		Toks:  []Tok{named("NUM", 340)},
		Rules: rules("L: | NUM L"),
		NTTag: allVal("L")})
	// one state reached with its kernel items in different insertion orders: two items advance on
	// the same symbol, one of them followed by a nonterminal (closure), the other by a terminal;
	// the groups of rules in several orders, because the order of rule numbers decides the item order
	{
		groups := []string{"R: 'a' C 'r'", "A: 'a' 'x'", "Q: 'a' C 's'", "C: 'x'"}
		for i, perm := range [][]int{{0, 1, 2, 3}, {1, 0, 2, 3}, {3, 2, 1, 0}, {2, 3, 0, 1}} {
			lines := []string{"S: 'p' R | 'p' A | 'q' A | 'q' Q"}
			for _, k := range perm {
				lines = append(lines, groups[k])
			}
			add(&Spec{Name: fmt.Sprintf("kernel_order_%d", i), Tags: []string{"lalr1"},
				Toks:  []Tok{lit('p'), lit('q'), lit('a'), lit('x'), lit('r'), lit('s')},
				Rules: rules(lines...)})
		}
	}
	// the alternatives of one nonterminal in two separate groups of the file
	add(&Spec{Name: "split_groups", Tags: []string{"lalr1"},
		Toks:  []Tok{litV('a'), litV('b'), litV('c')},
		Rules: rules("S: X 'b'", "X: 'a'", "Y: 'c'", "X: Y", "S: S 'a'"),
		NTTag: allVal("S", "X", "Y")})
	// nullability three levels deep, written top-down (the fixpoint needs a third pass)
	add(&Spec{Name: "nullable_chain3", Tags: []string{"lalr1", "nullable"},
		Toks:  []Tok{named("AT", 350), named("STATIC", 0), named("CONST", 0), named("REF", 353), named("INT", 0), named("ID", 355)},
		Rules: rules("member: attr quals type ID", "quals: mods optref", "mods: ostatic oconst", "ostatic: | STATIC", "oconst: | CONST", "optref: | REF", "attr: AT", "type: INT"),
		NTTag: map[string]string{"member": "val", "quals": "val", "mods": "alt", "ostatic": "val", "oconst": "val", "optref": "val", "attr": "val", "type": "val"}})
	// a cell with three candidates: a shift and two reductions, the first of which beats the
	// shift by precedence while the second loses to it
	add(&Spec{Name: "three_cand", Tags: []string{"conflict-resolved"},
		Toks:  []Tok{named("ID", 360), {Char: '+', Decl: "prec", Tag: ""}, {Name: "LOW", Decl: "prec"}, {Name: "HIGH", Decl: "prec"}},
		Prec:  []PrecLine{{"left", []string{"LOW"}}, {"left", []string{"'+'"}}, {"left", []string{"HIGH"}}},
		Rules: rules("E: E '+' E %prec HIGH | X | ID", "X: E '+' E %prec LOW"),
		NTTag: allVal("E", "X")})
	// default-resolved conflicts
	add(&Spec{Name: "dangling_else", Tags: []string{"conflict-sr"},
		Toks:  []Tok{lit('i'), lit('e'), litV('x')},
		Rules: rules("S: 'i' S | 'i' S 'e' S | 'x'"),
		NTTag: allVal("S")})
	// cycles in the `reads` relation (nullable B and C alternate on a loop of the automaton): LR(k)
	// for no k, every conflict default-resolved; the strongly connected components of the first
	// Digraph run share one slice, which the second run appends to (Horn checks and C10 only)
	add(&Spec{Name: "reads_cycle_a", Tags: []string{"conflict-sr", "conflict-rr", "cells-only"},
		Toks:  []Tok{lit('e'), lit('f'), lit('g'), litV('x'), lit('b'), lit('c')},
		Rules: rules("S: L 'e'", "L: B C L | R 'f' | Q 'g' | 'x'", "R: B", "Q: B C", "B: | 'b'", "C: | 'c'"),
		NTTag: allVal("S", "L")})
	add(&Spec{Name: "reads_cycle_b", Tags: []string{"conflict-sr", "conflict-rr", "cells-only"},
		Toks:  []Tok{lit('e'), lit('f'), lit('g'), lit('b'), lit('c'), lit('d')},
		Rules: rules("S: L 'e'", "L: Y 'f' | Q 'g'", "Y: B D", "Q: B C M", "M: | L", "B: | 'b'", "C: | 'c'", "D: | 'd'"),
		NTTag: allVal("S")})
	add(&Spec{Name: "rr_first", Tags: []string{"conflict-rr"},
		Toks:  []Tok{litV('x')},
		Rules: rules("S: A | B", "A: 'x'", "B: 'x'"),
		NTTag: allVal("S", "A", "B")})

	// reduce/reduce between two rules that both carry a precedence (from their terminal):
	// precedence does not apply, the earlier rule wins and the conflict is reported
	for _, as := range []string{"left", "right", "nonassoc"} {
		add(&Spec{Name: "rr_prec_" + as, Tags: []string{"conflict-rr"},
			Toks:  []Tok{{Char: 'x', Decl: "prec", Tag: ""}, lit('q')},
			Prec:  []PrecLine{{as, []string{"'x'"}}},
			Rules: rules("S: A 'q' | B 'q'", "A: 'x'", "B: 'x'")})
	}
	// more than 200 parser states (state numbers reach the region of the error / accept codes
	// of small grammars): 40 six-letter commands over eight letters
	{
		letters := []byte{'a', 'b', 'c', 'd', 'e', 'f', 'g', 'h'}
		var toks []Tok
		for _, l := range letters {
			toks = append(toks, lit(rune(l)))
		}
		toks = append(toks, lit(';'))
		var alts []string
		for i := 0; i < 40; i++ {
			w := []int{i % 8, i / 8, (i*3 + 1) % 8, (i*5 + 2) % 8, (i*7 + 3) % 8, (i + 4) % 8}
			alt := ""
			for _, k := range w {
				alt += fmt.Sprintf(" '%c'", letters[k])
			}
			alts = append(alts, alt)
		}
		add(&Spec{Name: "big200", Tags: []string{"lalr1", "big"},
			Toks:  toks,
			Rules: rules("P: C | P ';' C", "C:"+strings.Join(alts, " |")),
			NTTag: allVal("P", "C")})
	}
	// action bodies with a quote character literal (twice, so that the quotes would pair up),
	// a string, nested blocks and an escaped quote
	{
		sp := &Spec{Name: "action_text", Tags: []string{"lalr1", "go-only-actions"},
			Toks:  []Tok{named("NUM", 370), named("CHR", 371), lit('-')},
			Rules: rules("L: I | L I", "I: NUM | '-' CHR | CHR"),
			NTTag: allVal("L", "I")}
		sp.Rules[0].ActExtra = `if $1 == '"' { _ = 0 }`
		sp.Rules[1].ActExtra = `s := "a b"; _ = s`
		sp.Rules[2].ActExtra = `{ { _ = 0 } }`
		sp.Rules[3].ActExtra = `if $2 == '"' { _ = 1 }`
		sp.Rules[4].ActExtra = `c := '\''; _ = c`
		add(sp)
	}
	// tokens named like directives (left, right, prec): plain identifiers after a directive word
	add(&Spec{Name: "directive_names", Tags: []string{"conflict-resolved"},
		Toks:  []Tok{named("NUM", 380), {Name: "left"}, {Name: "prec", Num: 382}, {Name: "right", Decl: "prec"}},
		Prec:  []PrecLine{{"left", []string{"right"}}},
		Rules: rules("S: S left NUM | S right NUM | S prec NUM | NUM"),
		NTTag: allVal("S")})
	// right-recursive list with the base alternative first: a goto target gets a second kernel
	// item whose closure must still be added
	add(&Spec{Name: "rlist_basefirst", Tags: []string{"lalr1"},
		Toks:  []Tok{litV('a'), litV('b')},
		Rules: rules("L: I | I L", "I: 'a' | 'b'"),
		NTTag: allVal("L", "I")})
	// two transitions with empty own sets whose first successor is the same three-element follow
	// set, each getting one more token afterwards (sets must not share storage)
	add(&Spec{Name: "alias_follow", Tags: []string{"lalr1"},
		Toks:  []Tok{lit('a'), lit('b'), lit('c'), lit('d'), lit('e'), lit('x'), lit('y'), lit('q'), lit('r')},
		Rules: rules("S: B 'a' | B 'b' | B 'c' | D 'd' | F 'e'", "B: 'x' A | 'y' C", "D: 'x' A", "F: 'y' C", "A: 'q'", "C: 'r'")})
	// an includes-cycle through three nonterminals (mutual right recursion), entered from three
	// contexts at three different members, plus reductions that depend on one member only
	add(&Spec{Name: "scc_cycle", Tags: []string{"lalr1"},
		Toks:  []Tok{lit('p'), lit('q'), lit('r'), lit('u'), lit('w'), lit('v'), lit('('), lit('['), lit('x'), lit('y'), lit('z'), lit('a'), lit('b'), lit('c')},
		Rules: rules("S: RA 'p' | '(' RB 'q' | '[' RC 'r' | 'a' 'u' | '(' 'b' 'w' | '[' 'c' 'v'", "RA: 'x' RB | 'a'", "RB: 'y' RC | 'b'", "RC: 'z' RA | 'c'"),
		NTTag: allVal("S", "RA", "RB", "RC")})
	// a literal token that means something to fmt (the modulo operator)
	add(&Spec{Name: "mod_op", Tags: []string{"conflict-resolved"},
		Toks:  []Tok{named("NUM", 390), {Char: '%', Decl: "prec"}, {Char: '+', Decl: "prec"}},
		Prec:  []PrecLine{{"left", []string{"'+'"}}, {"left", []string{"'%'"}}},
		Rules: rules("E: E '%' E | E '+' E | NUM"),
		NTTag: allVal("E")})
	// two rules with byte-identical action text over differently tagged symbols (the action
	// logs the driver's own rule number)
	{
		sp := &Spec{Name: "same_actions", Tags: []string{"lalr1", "same-actions"}, SameActions: true,
			Toks:  []Tok{named("NUM", 395), {Name: "NAME", Num: 396, Tag: "alt"}, lit('+')},
			Rules: rules("S: num '+' name", "num: NUM", "name: NAME"),
			NTTag: map[string]string{"S": "val", "num": "val", "name": "alt"}}
		sp.Rules[1].K0, sp.Rules[1].Coef = 7, []int{2}
		sp.Rules[2].K0, sp.Rules[2].Coef = 7, []int{2}
		add(sp)
	}
	// a state with two complete items, the earlier rule with a precedence (%prec), the later
	// one without, the later one in a shift/reduce conflict with a token that has a level
	add(&Spec{Name: "stale_prec", Tags: []string{"conflict-sr"},
		Toks:  []Tok{lit('a'), lit('c'), lit('d'), lit('e'), {Char: '+', Decl: "prec"}},
		Prec:  []PrecLine{{"left", []string{"'+'"}}},
		Rules: rules("top: 'a' item 'd' | 'a' list 'e'", "item: 'c' %prec '+'", "list: pair | list '+' pair", "pair: 'c' | 'c' '+' 'c'")})
	// token numbers written on a precedence line (yacc: %left NAME number ...)
	add(&Spec{Name: "prec_numbers", Tags: []string{"conflict-resolved"},
		Toks:  []Tok{named("NUM", 410), {Name: "PLUS", Num: 420, Decl: "prec"}, {Name: "MINUS", Decl: "prec"}, {Name: "TIMES", Num: 430, Decl: "prec"}},
		Prec:  []PrecLine{{"left", []string{"PLUS", "MINUS"}}, {"left", []string{"TIMES"}}},
		Rules: rules("E: E PLUS E | E MINUS E | E TIMES E | NUM"),
		NTTag: allVal("E")})
	// character literals beyond ASCII: numbered by their character code, not by their first byte
	add(&Spec{Name: "utf8_literals", Tags: []string{"lalr1"},
		Toks:  []Tok{named("NUM", 440), lit('é'), lit('è')},
		Rules: rules("S: S 'é' NUM | S 'è' NUM | NUM"),
		NTTag: allVal("S")})
	// an action that is nothing but a copy between differently tagged symbols (it cannot log
	// itself: the grammar is used where variants are compared with each other)
	{
		sp := &Spec{Name: "copy_actions", Tags: []string{"lalr1", "no-log"},
			Toks:  []Tok{{Name: "NUM", Num: 450, Tag: "alt"}, lit('+'), lit('('), lit(')')},
			Rules: rules("S: S '+' T | T", "T: NUM | '(' S ')'"),
			NTTag: allVal("S", "T")}
		sp.Rules[2].Raw = "{ $$ = $1 }"
		sp.Rules[3].Raw = "{ $$ = $2 }"
		add(sp)
	}
	// a statement language with 71 states and 32 symbols: the packed vector passes 256 slots
	add(&Spec{Name: "lang71", Tags: []string{"conflict-resolved", "big", "cells-only"},
		Toks: []Tok{lit('i'), lit('n'), lit('f'), lit('w'), lit('e'), lit('r'), lit('v'), lit('p'),
			{Char: '+', Decl: "prec"}, {Char: '-', Decl: "prec"}, {Char: '*', Decl: "prec"}, {Char: '/', Decl: "prec"}, lit('('), lit(')'), lit('{'), lit('}'), lit(';'),
			{Char: '=', Decl: "prec"}, {Char: '<', Decl: "prec"}, lit(','), {Char: '!', Decl: "prec"}, {Char: '&', Decl: "prec"}, {Char: '^', Decl: "prec"}, lit('['), lit(']')},
		Prec: []PrecLine{{"right", []string{"'='"}}, {"left", []string{"'^'"}}, {"left", []string{"'&'"}}, {"left", []string{"'<'"}}, {"left", []string{"'+'", "'-'"}}, {"left", []string{"'*'", "'/'"}}, {"right", []string{"'!'"}}},
		Rules: rules("P: SL", "SL: | SL S",
			"S: 'v' 'i' ';' | 'v' 'i' '=' X ';' | X ';' | 'f' '(' X ')' S | 'f' '(' X ')' S 'e' S | 'w' '(' X ')' S | 'r' X ';' | 'r' ';' | 'p' '(' AL ')' ';' | '{' SL '}' | ';'",
			"AL: | X | AL ',' X",
			"X: X '+' X | X '-' X | X '*' X | X '/' X | X '<' X | X '&' X | X '^' X | 'i' '=' X | '!' X | '-' X %prec '!' | '(' X ')' | 'i' '(' AL ')' | 'i' '[' X ']' | 'i' | 'n'")})
	// a string alias after a token number followed by another token on the same line, and a value
	// tag given on a precedence line to a token that %token declared without one
	add(&Spec{Name: "alias_prectag", Tags: []string{"conflict-resolved"},
		ExtraDecl: []string{`%token <val> NUM 460 "number" ID`, "%token PLUS"},
		Toks:      []Tok{{Name: "NUM", Num: 460, Tag: "val", Decl: "extra"}, {Name: "ID", Tag: "val", Decl: "extra"}, {Name: "PLUS", Tag: "alt", Decl: "prec"}},
		Prec:      []PrecLine{{"left", []string{"PLUS"}}},
		PrecTag:   map[int]string{0: "alt"},
		Rules:     rules("E: E PLUS E | NUM | ID"),
		NTTag:     allVal("E")})
	// several tokens on one %token line (names with and without numbers, literals)
	add(&Spec{Name: "grouped_tokens", Tags: []string{"lalr1"}, GroupTokens: true,
		Toks:  []Tok{named("NUM", 470), named("ID", 0), named("STR", 472), litV('+'), litV('-'), {Name: "KW"}, {Name: "KX", Num: 475}, lit(';')},
		Rules: rules("S: S E ';' | E ';'", "E: E '+' T | E '-' T | T", "T: NUM | ID | STR | KW | KX"),
		NTTag: allVal("S", "E", "T")})
	// thirteen rules, one of them with twelve right-hand-side symbols: item (rule, dot) pairs with
	// two-digit components on both sides
	{
		var toks []Tok
		for _, n := range []string{"A", "B", "C", "D", "E", "F", "G", "H", "I", "J", "X", "Y", "K1", "K2", "K3", "K4", "K5", "K6", "K7", "K8", "K9"} {
			toks = append(toks, Tok{Name: n})
		}
		add(&Spec{Name: "long13", Tags: []string{"lalr1"}, MinN: 4,
			Toks:  toks,
			Rules: rules("s: A n B C D E F G H I J m", "m: Y", "k: K1 | K2 | K3 | K4 | K5 | K6 | K7 | K8 | K9", "n: X k")})
	}
	// a rule of seventeen symbols (dot positions beyond 15) next to rules that follow it in the file
	add(&Spec{Name: "long17", Tags: []string{"lalr1"}, MinN: 4,
		Toks:  []Tok{named("A", 490), named("B", 491), named("C", 492)},
		Rules: rules("s: body", "body: A A A A A A A A A A A A A A A A tail", "tail: B | C tail")})
	// a mid-rule action (an action body between two right-hand-side symbols)
	{
		sp := &Spec{Name: "midrule_action", Tags: []string{"lalr1", "go-only-actions"},
			Toks:  []Tok{named("A", 480), named("B", 481)},
			Rules: rules("S: A B | B"),
			NTTag: allVal("S")}
		sp.Rules[0].Mid, sp.Rules[0].MidPos = "{ verifMidRule() }", 1
		add(sp)
	}
	// explicit token numbers spelled with leading zeros (decimal, as in yacc)
	add(&Spec{Name: "leading_zero", Tags: []string{"lalr1"},
		Toks:  []Tok{{Name: "NUM", Num: 100, Tag: "val", NumText: "0100"}, {Name: "PLUS", Num: 43, NumText: "043"}, {Name: "STAR", Num: 8, NumText: "08"}},
		Rules: rules("E: E PLUS T | T", "T: T STAR NUM | NUM"),
		NTTag: allVal("E", "T")})
	// names that differ only in case; automatic token numbers
	add(&Spec{Name: "case_names", Tags: []string{"lalr1"},
		Toks:  []Tok{named("NUM", 0), named("List", 0), lit(',')},
		Rules: rules("list: num | list ',' num | List", "num: NUM"),
		NTTag: allVal("list", "num")})
	// start symbol named "start", no %start; auto-numbered tokens
	add(&Spec{Name: "auto_tokens", Tags: []string{"lalr1"}, NoStartDecl: true,
		Toks:  []Tok{named("AA", 0), named("BB", 0), {Name: "CC", Num: 5, Tag: "val"}, lit('z')},
		Rules: rules("start: AA start BB | CC | 'z'"),
		NTTag: allVal("start")})
	return out
}

// Random returns n seeded random reduced grammars (F-rand).
func Random(seed int64, n int) []*Spec {
	rng := rand.New(rand.NewSource(seed))
	var out []*Spec
	for len(out) < n {
		nt := 1 + rng.Intn(3)
		tt := 1 + rng.Intn(4)
		nr := nt + rng.Intn(5)
		s := &Spec{Name: fmt.Sprintf("rand_%d_%d", seed, len(out)), Tags: []string{"random"}}
		for i := 0; i < tt; i++ {
			s.Toks = append(s.Toks, litV(rune('a'+i)))
		}
		nts := []string{"S", "A", "B", "C"}[:nt]
		s.NTTag = allVal(nts...)
		// every nonterminal gets at least one rule
		for i := 0; i < nr; i++ {
			lhs := nts[i%nt]
			if i >= nt {
				lhs = nts[rng.Intn(nt)]
			}
			l := rng.Intn(4)
			var rhs []string
			for j := 0; j < l; j++ {
				if rng.Intn(3) == 0 {
					rhs = append(rhs, nts[rng.Intn(nt)])
				} else {
					rhs = append(rhs, s.Toks[rng.Intn(tt)].Ref())
				}
			}
			s.Rules = append(s.Rules, Rule{Lhs: lhs, Rhs: rhs})
		}
		sort.SliceStable(s.Rules, func(i, j int) bool { return s.NTIndexPre(nts, s.Rules[i].Lhs) < s.NTIndexPre(nts, s.Rules[j].Lhs) })
		s.Start = "S"
		s.Finish()
		if !s.reduced() {
			continue
		}
		out = append(out, s)
	}
	return out
}

func (s *Spec) NTIndexPre(nts []string, n string) int {
	for i, x := range nts {
		if x == n {
			return i
		}
	}
	return -1
}

// reduced: every nonterminal productive and reachable, no A =>+ A unit/epsilon cycles
// (cyclic grammars make the derivation reference ill-defined).
func (s *Spec) reduced() bool {
	prod := map[string]bool{}
	for ch := true; ch; {
		ch = false
		for _, r := range s.Rules {
			if prod[r.Lhs] {
				continue
			}
			ok := true
			for _, x := range r.Rhs {
				if s.NTIndex(x) >= 0 && !prod[x] {
					ok = false
				}
			}
			if ok {
				prod[r.Lhs] = true
				ch = true
			}
		}
	}
	for _, n := range s.NTs {
		if !prod[n] {
			return false
		}
	}
	reach := map[string]bool{s.Start: true}
	for ch := true; ch; {
		ch = false
		for _, r := range s.Rules {
			if !reach[r.Lhs] {
				continue
			}
			for _, x := range r.Rhs {
				if s.NTIndex(x) >= 0 && !reach[x] {
					reach[x] = true
					ch = true
				}
			}
		}
	}
	for _, n := range s.NTs {
		if !reach[n] {
			return false
		}
	}
	// nullable
	null := map[string]bool{}
	for ch := true; ch; {
		ch = false
		for _, r := range s.Rules {
			if null[r.Lhs] {
				continue
			}
			ok := true
			for _, x := range r.Rhs {
				if !null[x] {
					ok = false
				}
			}
			if ok {
				null[r.Lhs] = true
				ch = true
			}
		}
	}
	// unit-derivation cycles: edge A->B if A -> alpha B beta with alpha,beta nullable
	edge := map[string]map[string]bool{}
	for _, r := range s.Rules {
		for i, x := range r.Rhs {
			if s.NTIndex(x) < 0 {
				continue
			}
			ok := true
			for j, y := range r.Rhs {
				if j != i && !null[y] {
					ok = false
				}
			}
			if ok {
				if edge[r.Lhs] == nil {
					edge[r.Lhs] = map[string]bool{}
				}
				edge[r.Lhs][x] = true
			}
		}
	}
	for _, a := range s.NTs {
		seen := map[string]bool{}
		var dfs func(x string) bool
		dfs = func(x string) bool {
			for y := range edge[x] {
				if y == a {
					return true
				}
				if !seen[y] {
					seen[y] = true
					if dfs(y) {
						return true
					}
				}
			}
			return false
		}
		if dfs(a) {
			return false
		}
	}
	return true
}

// Tiny enumerates all reduced grammars with nonterminals {S,A}, terminals {a,b},
// at most 3 rules and right-hand sides of length at most 2 (F-tiny).
func Tiny() []*Spec {
	syms := []string{"'a'", "'b'", "S", "A"}
	var rhss [][]string
	rhss = append(rhss, nil)
	for _, x := range syms {
		rhss = append(rhss, []string{x})
	}
	for _, x := range syms {
		for _, y := range syms {
			rhss = append(rhss, []string{x, y})
		}
	}
	type rl struct {
		lhs string
		rhs []string
	}
	var all []rl
	for _, l := range []string{"S", "A"} {
		for _, r := range rhss {
			all = append(all, rl{l, r})
		}
	}
	var out []*Spec
	emit := func(idx []int) {
		s := &Spec{Name: fmt.Sprintf("tiny_%d", len(out)), Tags: []string{"tiny"}, Toks: []Tok{litV('a'), litV('b')}}
		usedA, defA := false, false
		for _, i := range idx {
			s.Rules = append(s.Rules, Rule{Lhs: all[i].lhs, Rhs: all[i].rhs})
			if all[i].lhs == "A" {
				defA = true
			}
			for _, x := range all[i].rhs {
				if x == "A" {
					usedA = true
				}
			}
		}
		if s.Rules[0].Lhs != "S" || usedA != defA {
			return
		}
		s.NTTag = allVal("S", "A")
		s.Start = "S"
		s.Finish()
		if !s.reduced() {
			return
		}
		out = append(out, s)
	}
	n := len(all)
	for i := 0; i < n; i++ {
		emit([]int{i})
		for j := i + 1; j < n; j++ {
			emit([]int{i, j})
			for k := j + 1; k < n; k++ {
				emit([]int{i, j, k})
			}
		}
	}
	return out
}

// ExprFamily enumerates operator tables: 2 binary operators (+ unary minus) under all
// assignments of associativities to 1..3 levels (F-expr, thorough tier).
func ExprFamily() []*Spec {
	var out []*Spec
	assocs := []string{"left", "right", "nonassoc"}
	n := 0
	for _, a1 := range assocs {
		for _, a2 := range assocs {
			// two levels, '+' below '*'
			out = append(out, Expr(fmt.Sprintf("exprfam_%d", n), []PrecLine{{a1, []string{"'+'"}}, {a2, []string{"'*'"}}}, []byte{'+', '*'}, false))
			n++
		}
		// one level shared by both operators
		out = append(out, Expr(fmt.Sprintf("exprfam_%d", n), []PrecLine{{a1, []string{"'+'", "'*'"}}}, []byte{'+', '*'}, false))
		n++
		// unary minus above, between and below the binary levels
		out = append(out, Expr(fmt.Sprintf("exprfam_%d", n), []PrecLine{{a1, []string{"'-'"}}, {"left", []string{"'*'"}}, {"right", []string{"UMINUS"}}}, []byte{'-', '*'}, true))
		n++
		out = append(out, Expr(fmt.Sprintf("exprfam_%d", n), []PrecLine{{a1, []string{"'-'"}}, {"right", []string{"UMINUS"}}, {"left", []string{"'*'"}}}, []byte{'-', '*'}, true))
		n++
		out = append(out, Expr(fmt.Sprintf("exprfam_%d", n), []PrecLine{{"nonassoc", []string{"UMINUS"}}, {a1, []string{"'-'"}}, {"left", []string{"'*'"}}}, []byte{'-', '*'}, true))
		n++
	}
	return out
}

// Pieces returns the lexical pieces of the canonical rendering and the separators between
// them (Seps[i] follows Pieces[i]); concatenated they give a text that yaccgo must read as
// the specification. Extra layout may be inserted after any separator.
func (s *Spec) Pieces() (pieces, seps []string) {
	add := func(p, sep string) {
		pieces = append(pieces, p)
		seps = append(seps, sep)
	}
	add("%{"+GoPrologue+"%}", "\n")
	add("%union", " ")
	add("{"+GoUnion+"}", "\n")
	for _, l := range s.ExtraDecl {
		f := strings.Fields(l)
		for i, w := range f {
			sep := " "
			if i == len(f)-1 {
				sep = "\n"
			}
			if strings.HasPrefix(w, "<") && strings.HasSuffix(w, ">") {
				add("<", "")
				add(strings.Trim(w, "<>"), "")
				add(">", sep)
			} else {
				add(w, sep)
			}
		}
	}
	for _, dl := range s.tokenDeclLines() {
		add("%token", " ")
		if dl.Tag != "" {
			add("<", "")
			add(dl.Tag, "")
			add(">", " ")
		}
		for k, w := range dl.Items {
			if k+1 < len(dl.Items) {
				add(w, " ")
			} else {
				add(w, "\n")
			}
		}
	}
	for pi, p := range s.Prec {
		add("%"+p.Assoc, " ")
		if tag := s.PrecTag[pi]; tag != "" {
			add("<", "")
			add(tag, "")
			add(">", " ")
		}
		for i, sym := range p.Syms {
			sep := " "
			if i+1 >= len(p.Syms) {
				sep = "\n"
			}
			if n := s.precLineNumber(sym); n != 0 {
				add(sym, " ")
				add(fmt.Sprint(n), sep)
			} else {
				add(sym, sep)
			}
		}
	}
	byTag := map[string][]string{}
	for _, n := range s.NTs {
		if tag := s.NTTag[n]; tag != "" {
			byTag[tag] = append(byTag[tag], n)
		}
	}
	var tags []string
	for t := range byTag {
		tags = append(tags, t)
	}
	sort.Strings(tags)
	for _, t := range tags {
		add("%type", " ")
		add("<", "")
		add(t, "")
		add(">", " ")
		for i, n := range byTag[t] {
			if i+1 < len(byTag[t]) {
				add(n, " ")
			} else {
				add(n, "\n")
			}
		}
	}
	if !s.NoStartDecl {
		add("%start", " ")
		add(s.Start, "\n")
	}
	add("%%", "\n")
	for k := 0; k < len(s.Rules); {
		lhs := s.Rules[k].Lhs
		add(lhs, " ")
		add(":", " ")
		first := true
		for k < len(s.Rules) && s.Rules[k].Lhs == lhs {
			r := s.Rules[k]
			if !first {
				add("|", " ")
			}
			first = false
			for i, sym := range r.Rhs {
				if r.Mid != "" && i == r.MidPos {
					add(r.Mid, " ")
				}
				add(sym, " ")
			}
			if r.Prec != "" {
				add("%prec", " ")
				add(r.Prec, " ")
			}
			add(s.Action(k+1, false), "\n")
			k++
		}
	}
	add("%%", "")
	add(GoEpilogue, "")
	return
}

// RandomRich returns n seeded random reduced grammars that also vary the declaration
// space: literal and named tokens (explicit or automatic numbers), value tags on tokens and
// nonterminals (two union fields), precedence lines of all three kinds (some tokens declared
// only there), %prec annotations, empty rules. Conflicts are allowed.
func RandomRich(seed int64, n int) []*Spec {
	rng := rand.New(rand.NewSource(seed*7919 + 17))
	lits := []byte{'a', 'b', 'c', 'd', '+', '*', '-', '<', '(', ')'}
	var out []*Spec
	for tries := 0; len(out) < n && tries < 200*n; tries++ {
		s := &Spec{Name: fmt.Sprintf("rich_%d_%d", seed, len(out)), Tags: []string{"random", "rich"}, NTTag: map[string]string{}}
		nt := 1 + rng.Intn(4)
		nts := []string{"S", "A", "B", "C"}[:nt]
		// terminals
		tt := 2 + rng.Intn(4)
		perm := rng.Perm(len(lits))
		named := 0
		for i := 0; i < tt; i++ {
			var t Tok
			if rng.Intn(3) == 0 {
				named++
				t = Tok{Name: fmt.Sprintf("T%d", named)}
				if rng.Intn(2) == 0 {
					t.Num = 500 + 7*named
				}
			} else {
				t = Tok{Char: rune(lits[perm[i]])}
			}
			switch rng.Intn(4) {
			case 0:
				t.Tag = "alt"
			case 1:
			default:
				t.Tag = "val"
			}
			s.Toks = append(s.Toks, t)
		}
		// precedence lines over a random subset of the terminals
		if rng.Intn(2) == 0 {
			order := rng.Perm(tt)
			lines := 1 + rng.Intn(3)
			k := 0
			for l := 0; l < lines && k < tt; l++ {
				pl := PrecLine{Assoc: []string{"left", "right", "nonassoc"}[rng.Intn(3)]}
				cnt := 1 + rng.Intn(2)
				for c := 0; c < cnt && k < tt; c++ {
					t := &s.Toks[order[k]]
					k++
					pl.Syms = append(pl.Syms, t.Ref())
					if t.Tag == "" && rng.Intn(2) == 0 {
						t.Decl = "prec" // declared by the precedence line only (an explicit number is written there)
					}
				}
				s.Prec = append(s.Prec, pl)
			}
		}
		for _, x := range nts {
			switch rng.Intn(4) {
			case 0:
				s.NTTag[x] = "alt"
			case 1:
				s.NTTag[x] = ""
			default:
				s.NTTag[x] = "val"
			}
		}
		s.NTTag["S"] = "val"
		nr := nt + rng.Intn(5)
		for i := 0; i < nr; i++ {
			lhs := nts[i%nt]
			if i >= nt {
				lhs = nts[rng.Intn(nt)]
			}
			l := rng.Intn(4)
			var rhs []string
			for j := 0; j < l; j++ {
				if rng.Intn(3) == 0 {
					rhs = append(rhs, nts[rng.Intn(nt)])
				} else {
					rhs = append(rhs, s.Toks[rng.Intn(tt)].Ref())
				}
			}
			r := Rule{Lhs: lhs, Rhs: rhs}
			if len(s.Prec) > 0 && rng.Intn(5) == 0 {
				pl := s.Prec[rng.Intn(len(s.Prec))]
				r.Prec = pl.Syms[rng.Intn(len(pl.Syms))]
			}
			s.Rules = append(s.Rules, r)
		}
		sort.SliceStable(s.Rules, func(i, j int) bool { return s.NTIndexPre(nts, s.Rules[i].Lhs) < s.NTIndexPre(nts, s.Rules[j].Lhs) })
		dup := false
		for i := range s.Rules {
			for j := i + 1; j < len(s.Rules); j++ {
				if s.Rules[i].Lhs == s.Rules[j].Lhs && strings.Join(s.Rules[i].Rhs, " ") == strings.Join(s.Rules[j].Rhs, " ") {
					dup = true
				}
			}
		}
		if dup {
			continue
		}
		// one grammar in three has the alternatives of a nonterminal in two separate groups
		// (yacc allows a left-hand side to come back later in the file)
		if rng2 := rand.New(rand.NewSource(seed*31 + int64(tries))); rng2.Intn(3) == 0 && len(s.Rules) > 2 {
			k := 1 + rng2.Intn(len(s.Rules)-1)
			moved := s.Rules[k]
			s.Rules = append(append(s.Rules[:k:k], s.Rules[k+1:]...), moved)
		}
		s.GroupTokens = tries%3 == 1
		s.Start = "S"
		s.Finish()
		if !s.reduced() {
			continue
		}
		// every token must be declared somewhere: tokens that are only used in rules are literals
		ok := true
		for _, t := range s.Toks {
			used := false
			for _, r := range s.Rules {
				for _, x := range r.Rhs {
					if x == t.Ref() {
						used = true
					}
				}
			}
			if !used && t.Decl == "prec" && t.Name == "" {
				// an unused literal declared only in a precedence line is fine
				continue
			}
			_ = used
		}
		if !ok {
			continue
		}
		out = append(out, s)
	}
	return out
}
