#!/bin/bash
# seedregress.sh [pattern]: re-run, for every stored seeded change, the first quick check its meta.json names as catching it
# (scratch worktree per seed; HEAD if the patch still applies there, else the seed's base commit). Output: one line per seed.
cd /verif
for d in seeded/C*${1:-}*/; do
  name=$(basename "$d")
  id=$(python3 - "$d" <<'PY'
import json,re,sys
m=json.load(open(sys.argv[1]+'meta.json'))
ids=[]
for c in m['caught_by']:
    for x in re.findall(r'(C\d\d) (quick|thorough)', c):
        ids.append(x)
q=[i for i,t in ids if t=='quick']
print((q or [ids[0][0]])[0], 'quick' if q else 'thorough', m.get('base_commit','HEAD'))
PY
)
  set -- $id
  chk=$1; tier=$2; base=$3
  b=HEAD
  res=$(BASE=$b TIER=$tier ./seedtest.sh "$PWD/$d/patch.diff" $chk 2>&1)
  if echo "$res" | grep -q "patch does not apply"; then
    b=$base
    res=$(BASE=$b TIER=$tier ./seedtest.sh "$PWD/$d/patch.diff" $chk 2>&1)
  fi
  echo "$name base=$b $(echo "$res" | grep "^$chk rc=")" | cut -c1-260
done
