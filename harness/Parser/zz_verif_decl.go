package parser

// VerifUsable: a grammar is refused (with a diagnostic) exactly when it uses an undeclared
// or undefined symbol or contains a nonterminal that derives no terminal string (C12).
// The AST is built directly; every right-hand-side symbol is a solver choice over the pool
// {token A, token B, S, N, %type-only T, undeclared U}.
func VerifUsable(R, maxLen, startMode int) {
	pool := []string{"A", "B", "S", "N", "T", "U"}
	startName := "S"
	if startMode == 1 || startMode == 3 {
		// no %start directive: the start symbol is the one named "start"
		startName = "start"
		pool[2] = "start"
	}
	declT := verifBool("declareT")
	decl := &DeclareNode{
		TokenDefList: []TokenDef{{IdentifyList: []Idendity{
			{Name: "A", IDTyp: TERMID}, {Name: "B", IDTyp: TERMID, Value: 7}}}},
		// B has a precedence level, A has none
		PrecDefList: [][]PrecDef{{{IdName: "B", AssocType: LeftAssocType}}},
		StartSym:    startName,
	}
	if declT {
		decl.TypeDefList = []TypeDef{{Tag: "t", IdName: "T"}}
	}
	lhsNames := []string{startName, "N", "T"}
	precUndeclared := false
	lhsOf := make([]int, R)
	rhsOf := make([][]int, R)
	var defs []RuleDef
	for r := 0; r < R; r++ {
		li := verifConc(verifPick("lhs", 3))
		lhsOf[r] = li
		n := verifConc(verifIntIn("len", 0, maxLen))
		rd := RuleDef{LeftPart: lhsNames[li], LineNo: r + 1}
		// %prec: none, a declared token without a level, a declared token with a level, an undeclared name
		precChoices := 4
		if startMode >= 2 {
			precChoices = 1 // larger shapes are explored without %prec annotations
		}
		switch verifConc(verifPick("prec", precChoices)) {
		case 1:
			rd.PrecSym = "A"
		case 2:
			rd.PrecSym = "B"
		case 3:
			rd.PrecSym = "U"
			precUndeclared = true
		}
		for j := 0; j < n; j++ {
			k := verifConc(verifPick("rhs", len(pool)))
			rhsOf[r] = append(rhsOf[r], k)
			rd.RightPart = append(rd.RightPart, RightSymOrAction{ElemType: RightSyType, Element: pool[k]})
		}
		defs = append(defs, rd)
	}
	root := &RootNode{Declare: decl, Rules: &RuleDefNode{RuleDefList: defs}}

	kind, msg := verifBuild(root)

	// reference verdict
	defined := make([]bool, 3) // S N T
	for r := 0; r < R; r++ {
		defined[lhsOf[r]] = true
	}
	bad := !defined[0] // the start symbol needs a rule
	if precUndeclared {
		bad = true // %prec names a symbol that is neither declared nor defined
	}
	if declT && !defined[2] {
		bad = true // a declared nonterminal without any rule derives nothing
	}
	for r := 0; r < R; r++ {
		for _, k := range rhsOf[r] {
			switch k {
			case 5:
				bad = true // U is neither declared nor defined
			case 3:
				if !defined[1] {
					bad = true
				}
			case 4:
				if !defined[2] && !declT {
					bad = true
				}
			}
		}
	}
	// productivity of the defined nonterminals (least fixpoint)
	prod := make([]bool, 3)
	for round := 0; round <= R; round++ {
		for r := 0; r < R; r++ {
			ok := true
			for _, k := range rhsOf[r] {
				if k >= 2 && k <= 4 && !prod[k-2] {
					ok = false
				}
				if k == 5 {
					ok = false
				}
			}
			if ok {
				prod[lhsOf[r]] = true
			}
		}
	}
	for i := 0; i < 3; i++ {
		if defined[i] && !prod[i] {
			bad = true
		}
	}
	if bad {
		verifCover("unusable")
		verifAssert(kind != 0, "C12: an unusable grammar (undefined symbol or unproductive nonterminal) was accepted")
		verifAssert(kind == 0 || kind == 1 || kind == 3, "C12: an unusable grammar was refused by a crash instead of a diagnostic: "+msg)
	} else {
		verifCover("usable")
		verifAssert(kind == 0, "C12: a usable grammar was refused: "+msg)
	}
}

// verifBuild runs the declaration/rule visitors and the LALR construction like ParseAndBuild.
func verifBuild(root *RootNode) (kind int, msg string) {
	defer func() {
		if r := recover(); r != nil {
			kind, msg = verifClassify(r)
		}
	}()
	var node Node = root
	w := DoWalker(&node, &RootVistor{})
	lalr := w.BuildLALR1()
	if lalr == nil {
		return 4, "nil LALR"
	}
	return 0, ""
}
