package parser

// Replaced (same overlay path) by the driver of C10 with tables generated from the corpus.
var verifPieces = [][]string{}
var verifSeps = [][]string{}
var verifExpRules = [][]verifExpRule{}
var verifExpToks = [][]verifExpTok{}
var verifExpPrec = [][]verifExpPrecT{}
var verifExpStart = []string{}
var verifExpCode = []string{}
var verifExpUnion = []string{}
var verifExpRest = []string{}
var verifGroupEnds = [][]int{}

var verifRuleSpan = [][][2]int{}
