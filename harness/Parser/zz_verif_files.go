package parser

// Well-formed grammar files for the edit / prefix harness of C13 (VerifEdit).  The driver
// (tool/checks/c13.go) reads these literals from this file with go/parser to render a
// counterexample as text, so there is one copy only.
var verifFiles = []string{
	// 0: every construct once, kept short
	"%{\np\n%}\n/* c */\n%union { v int }\n%token <v> N 300 \"n\" M\n%left <v> '+'\n%right U\n%type <v> e\n%start e\n%%\n// r\ne : e '+' e { $$ = $1 + $3 }\n  | '-' e %prec U { $$ = -$2 }\n  | N\n  |\n  ;\n%%\nx\n",
	// 1: no prologue, no union, no second %%, CRLF, nested braces in an action, two rules
	"%token A\r\n%token B 7\r\n%nonassoc '<'\r\n%precedence Q\r\n%%\r\nstart : s A { if x { y() } }\r\n | s '<' s ;\r\ns : B | /* e */ ;\r\n",
	// 2: the shape of examples/ladd.y in small: several tokens per line, string alias, %type list, comment in the union
	"%{\npackage main\n%}\n%union {\n  val int // c\n}\n%token NL PLUS\n%token <val> NUM \"number\"\n%type <val> E PROG\n%left PLUS\n%start PROG\n%%\nPROG : | PROG E NL { $$ = $2 } ;\nE : NUM { $$ = $1 } | E PLUS E { $$ = $1 + $3 } ;\n%%\nfunc main() {}\n",
	// EXTRA-FILES (the thorough tier of the driver adds /repo/examples/e.y and ladd.y here, in the overlay only)
}

// VerifEdit: Parse terminates on every one-byte edit of a well-formed grammar file and on
// every prefix of it followed by one arbitrary byte (C13: "every prefix of every well-formed
// grammar file, and random edits of well-formed files").  The position is a solver choice
// that is split into one path per value; the byte is unconstrained ASCII.
//   mode 0: byte at pos replaced    mode 1: file cut at pos, one byte appended
//   mode 2: byte inserted at pos    mode 3: byte at pos deleted    mode 4: file cut at pos
//   mode 5: bytes at pos, pos+1 replaced    mode 6: file cut at pos, two bytes appended
func VerifEdit(file int, mode int) {
	verifUnwind(4000)
	f := verifFiles[file]
	n := len(f)
	if mode == 0 || mode == 3 {
		n--
	}
	if mode == 5 {
		n -= 2
	}
	pos := verifConc(verifPick("pos", n+1))
	var input string
	switch mode {
	case 0, 1, 2:
		b := verifString("b", 1)
		verifAssume(b[0] < 0x80)
		switch mode {
		case 0:
			input = f[:pos] + b + f[pos+1:]
		case 1:
			input = f[:pos] + b
		default:
			input = f[:pos] + b + f[pos:]
		}
	case 5, 6:
		b := verifString("b", 2)
		verifAssume(b[0] < 0x80 && b[1] < 0x80)
		if mode == 5 {
			input = f[:pos] + b + f[pos+2:]
		} else {
			input = f[:pos] + b
		}
	case 3:
		input = f[:pos] + f[pos+1:]
	default:
		input = f[:pos]
	}
	verifParseOutcome(input)
	verifCover("terminated")
}

// VerifFileParses: is file `file` of the list above read as well-formed by this tree?  Not a
// property of C13: the driver leaves the edits of a refused file out (and says so), because
// they would only explore the diagnostics.
func VerifFileParses(file int) {
	verifUnwind(4000)
	if verifParseOutcome(verifFiles[file]) {
		verifCover("file parses")
	}
}
