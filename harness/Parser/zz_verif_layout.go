package parser

// C10: the grammar file is read faithfully, whatever its layout. The expected tables
// (verifExp*) and the lexical pieces of the canonical rendering (verifPieces/verifSeps)
// are generated from the corpus specification by the driver (zz_verif_layout_data.go).

type verifExpRule struct {
	Lhs    string
	Rhs    []string
	Prec   string
	Action string
	Mid    string // a mid-rule action of this rule ("" if none)
}

type verifExpTok struct {
	Name  string
	Value int // 0 = automatic (any value)
	Tag   string
	Term  bool
}

type verifExpPrecT struct {
	Name  string
	Level int
	Assoc int // 1 left, 2 right, 3 nonassoc
}

// verifSymName is the identifier name yaccgo uses for a symbol reference of the specification
// (character literals get the repository's own temporary name).
func verifSymName(ref string) string {
	if len(ref) >= 3 && ref[0] == '\'' {
		return genTempName(ref[1 : len(ref)-1])
	}
	return ref
}

// verifRender concatenates the pieces, inserting extra[i] after separator i. The byte offset
// of every piece in the result is kept for the line-number check.
func verifRender(id int, extra map[int]string) string {
	out := ""
	verifOffsets = make([]int, len(verifPieces[id]))
	for i, p := range verifPieces[id] {
		verifOffsets[i] = len(out)
		out += p + verifSeps[id][i]
		if e, ok := extra[i]; ok {
			out += e
		}
	}
	return out
}

// verifOffsets: piece offsets of the last verifRender (nil when the text was built otherwise)
var verifOffsets []int

// verifLineAt is the line (from 1) of byte offset off in text.
func verifLineAt(text string, off int) int {
	n := 1
	for i := 0; i < off && i < len(text); i++ {
		if text[i] == '\n' {
			n++
		}
	}
	return n
}

// verifCheckRead parses text and compares what yaccgo will work on with the specification.
// code/union/rest are the expected prologue, %union body and epilogue (possibly symbolic).
func verifCheckRead(id int, text string, code, union, rest string, actionOf map[int]string) {
	root, err := Parse(text)
	verifAssert(err == nil && root != nil, "C10: a rendering of a valid specification was refused")
	if err != nil || root == nil {
		return
	}
	var node Node = root
	v := &RootVistor{}
	refused := func() (r bool) {
		defer func() {
			if recover() != nil {
				r = true
			}
		}()
		DoWalker(&node, v)
		return false
	}()
	verifAssert(!refused, "C10: a rendering of a valid specification was refused (the visitors gave up)")
	if refused {
		return
	}
	exp := verifExpRules[id]
	for _, e := range exp {
		if e.Mid == "" {
			continue
		}
		// a mid-rule action is an action body of the file: it must be part of what yaccgo works on
		// (whether as an action of the rule or of a rule generated for it is yaccgo's business)
		found := false
		for _, r := range v.rules {
			if verifHas(r.ActionCode, e.Mid) {
				found = true
			}
		}
		verifCover("mid-rule")
		verifCover("read")
		verifAssert(found, "C10: a mid-rule action body is lost")
		return
	}
	verifAssert(len(v.rules) == len(exp), "C10: number of rules read differs from the file")
	if len(v.rules) != len(exp) {
		return
	}
	for k, r := range v.rules {
		e := exp[k]
		if verifOffsets != nil && k < len(verifRuleSpan[id]) {
			// the line recorded for a rule (it is written into the output) is a line of that alternative
			from := verifLineAt(text, verifOffsets[verifRuleSpan[id][k][0]])
			sp := verifRuleSpan[id][k][1]
			to := verifLineAt(text, verifOffsets[sp]+len(verifPieces[id][sp]))
			verifAssert(from <= r.LineNo && r.LineNo <= to, "C10: the line number recorded for a rule is not a line of that rule")
		}
		verifAssert(r.LeftPart != nil && r.LeftPart.Name == e.Lhs, "C10: left-hand side of a rule differs from the file")
		verifAssert(len(r.RighPart) == len(e.Rhs), "C10: number of right-hand-side symbols differs from the file")
		if len(r.RighPart) == len(e.Rhs) {
			for i := range e.Rhs {
				verifAssert(r.RighPart[i].Name == verifSymName(e.Rhs[i]), "C10: right-hand-side symbol differs from the file")
			}
		}
		// the rule's precedence symbol: its %prec annotation, else its last terminal that has a level, else none
		if e.Prec != "" {
			verifAssert(r.PrecIdSym != nil && r.PrecIdSym.Id.Name == verifSymName(e.Prec), "C10: %prec annotation lost or changed")
		} else {
			verifAssert(r.PrecIdSym == nil, "C10: a rule without %prec and without a terminal that has a level was given a precedence")
		}
		want := e.Action
		if a, ok := actionOf[k]; ok {
			want = a
		}
		verifAssert(r.ActionCode == want, "C10: action body not carried over unchanged")
	}
	if verifExpStart[id] != "" {
		verifAssert(v.startSym != nil && v.startSym.Name == verifExpStart[id], "C10: declared start symbol differs from the file")
	}
	for _, t := range verifExpToks[id] {
		idn := v.idsymtabl[verifSymName(t.Name)]
		verifAssert(idn != nil, "C10: a declared symbol is missing")
		if idn == nil {
			continue
		}
		if t.Value != 0 {
			verifAssert(idn.Value == t.Value, "C10: token number differs from the file")
		}
		verifAssert(idn.Tag == t.Tag, "C10: value tag differs from the file")
		if t.Term {
			verifAssert(idn.IDTyp == TERMID, "C10: a token is not read as a terminal")
		} else {
			verifAssert(idn.IDTyp == NONTERMID, "C10: a nonterminal is not read as one")
		}
	}
	for _, p := range verifExpPrec[id] {
		pr := v.preMap[verifSymName(p.Name)]
		verifAssert(pr != nil, "C10: precedence declaration lost")
		if pr != nil {
			verifAssert(pr.Prec == p.Level && int(pr.AssocType) == p.Assoc, "C10: precedence level or associativity differs from the file")
		}
	}
	verifAssert(len(v.preMap) == len(verifExpPrec[id]), "C10: extra precedence declarations")
	verifAssert(v.code == code, "C10: prologue not carried over unchanged")
	verifAssert(v.union == union, "C10: %union body not carried over unchanged")
	verifAssert(v.CodeCpy == rest, "C10: epilogue not carried over unchanged")
	verifCover("read")
}

// VerifCanonical: the canonical rendering itself is read as the specification.
func VerifCanonical(id int) {
	verifCheckRead(id, verifRender(id, nil), verifExpCode[id], verifExpUnion[id], verifExpRest[id], nil)
}

// VerifNoEpilogue: the second %% and the epilogue are optional; without them nothing is
// carried over as epilogue.
func VerifNoEpilogue(id int) {
	n := len(verifPieces[id])
	out := ""
	verifOffsets = nil
	for i := 0; i < n-2; i++ {
		out += verifPieces[id][i] + verifSeps[id][i]
	}
	verifCheckRead(id, out, verifExpCode[id], verifExpUnion[id], "", nil)
}

// VerifBodies: the prologue (which = 0), the %union body (1) or the epilogue (2) consists of m
// arbitrary bytes of a small alphabet (no braces, quotes, '%' or '/': their nesting rules are
// the target language's business); the bytes must arrive unchanged.
func VerifBodies(id, which, m int) {
	body := verifString("body", m)
	for i := 0; i < len(body); i++ {
		b := body[i]
		verifAssume(b == 'a' || b == '1' || b == '_' || b == ' ' || b == '\t' || b == '\n' || b == '\r' || b == ';' || b == '*')
	}
	n := len(verifPieces[id])
	out := ""
	verifOffsets = nil
	for i, p := range verifPieces[id] {
		switch {
		case which == 0 && i == 0:
			p = "%{" + body + "%}"
		case which == 1 && i == 2:
			p = "{" + body + "}"
		case which == 2 && i == n-1:
			p = body
		}
		out += p + verifSeps[id][i]
	}
	code, union, rest := verifExpCode[id], verifExpUnion[id], verifExpRest[id]
	switch which {
	case 0:
		code = body
	case 1:
		union = body
	default:
		rest = body
	}
	verifCheckRead(id, out, code, union, rest, nil)
}

// VerifLayout: m arbitrary whitespace bytes inserted after separator `hole`.
func VerifLayout(id, hole, m int) {
	ws := verifString("ws", m)
	for i := 0; i < len(ws); i++ {
		verifAssume(ws[i] == ' ' || ws[i] == '\t' || ws[i] == '\n' || ws[i] == '\r')
	}
	verifCheckRead(id, verifRender(id, map[int]string{hole: ws}), verifExpCode[id], verifExpUnion[id], verifExpRest[id], nil)
}

// VerifComment: a comment with m arbitrary body bytes inserted after separator `hole`.
func VerifComment(id, hole, kind, m int) {
	body := verifString("cb", m)
	for i := 0; i < len(body); i++ {
		verifAssume(body[i] < 0x80)
		if kind == 0 {
			// a block comment ends at the first "*/": the body must not contain one
			if i+1 < len(body) {
				verifAssume(!(body[i] == '*' && body[i+1] == '/'))
			}
		} else {
			verifAssume(body[i] != '\n')
		}
	}
	var c string
	if kind == 0 {
		c = "/*" + body + "*/"
	} else {
		c = "//" + body + "\n"
	}
	verifCheckRead(id, verifRender(id, map[int]string{hole: c}), verifExpCode[id], verifExpUnion[id], verifExpRest[id], nil)
}

// VerifSemicolons: an optional ';' after each rule group, present or absent by a symbolic flag.
func VerifSemicolons(id int) {
	extra := map[int]string{}
	for _, h := range verifGroupEnds[id] {
		if verifBool("semi") {
			extra[h] = " ;\n"
		}
	}
	verifCheckRead(id, verifRender(id, extra), verifExpCode[id], verifExpUnion[id], verifExpRest[id], nil)
}

func verifHas(s, sub string) bool {
	for i := 0; i+len(sub) <= len(s); i++ {
		if s[i:i+len(sub)] == sub {
			return true
		}
	}
	return false
}
