package parser

var verifKinds = []Kind{EOF, tokenError, Identifier, Number, Section, CodeQuote, ActionQuote, TypeDirective, TokenDirective,
	UnionDirective, LeftAssoc, RightAssoc, NoneAssoc, PrecDirective, Precedence, StartDirective, ActionSelf, ActionN,
	ActionAccept, ActionEnd, RuleOR, RuleDefine, RuleEnd, LeftAngleBracket, RightAngleBracket, Charater, StringKind}

// VerifTokenStream: the declaration and rule parser terminates on every stream of N
// tokens (any Kind) followed by the end of the stream (closed channel), C13 token level.
func VerifTokenStream(N int) {
	verifUnwind(300)
	ch := make(chan Token, N+3)
	for i := 0; i <= N; i++ {
		// the real lexer stops after its first EOF or error token: only the last token
		// of a stream is one of those two
		var k int
		if i < N {
			k = 2 + verifPick("kind", len(verifKinds)-2)
		} else {
			k = verifPick("last", 2)
		}
		kind := verifKinds[k]
		val := "v"
		if kind == Number {
			val = "7"
		}
		ch <- Token{Kind: kind, Value: val}
	}
	close(ch)
	p := &parser{lex: &lexer{input: "", tokens: ch}, pos: 0}
	p.TokenDefMap = make(map[string]bool)
	verifTokenParse(p)
	verifCover("terminated")
}

// verifTokenParse mirrors Parse() after the lexer has been created (same calls, same order).
func verifTokenParse(p *parser) {
	defer func() {
		if r := recover(); r != nil {
			verifClassify(r)
			verifCover("diagnostic")
		}
	}()
	nodeDeclare := p.parseDeclare()
	if nodeDeclare == nil {
		verifCover("diagnostic")
		return
	}
	decl, _ := nodeDeclare.(*DeclareNode)
	if !p.current.Is(Section) {
		verifCover("diagnostic")
		return
	}
	p.next()
	for {
		if ruleslice := p.parseRule(&decl.TokenDefList); ruleslice == nil {
			break
		}
	}
	verifCover("parsed")
}
