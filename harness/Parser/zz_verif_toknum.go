package parser

// VerifTokenNumbers (C11-U): astDeclareVistor.Process on k named token declarations whose
// names are solver choices from {A,B,C,D} (redeclarations possible) and whose explicit
// numbers are symbolic (0 = automatic), plus two character literals and a %type name.
// Provided the user's explicit numbers are distinct from each other, from the literal
// codes and from -1, every terminal ends up with its own code, explicit numbers and
// literal codes are kept.
func VerifTokenNumbers(k int) {
	names := []string{"A", "B", "C", "D"}
	lits := []byte{'+', '{'}
	var defs []TokenDef
	given := map[string]int{} // explicit number per name (0 none)
	var vals []int
	for i := 0; i < k; i++ {
		n := names[verifConc(verifPick("name", len(names)))]
		v := verifIntIn("num", -3, 130)
		verifAssume(v != -1)
		if given[n] != 0 {
			verifAssume(v == 0) // a token is given at most one explicit number
		}
		if v != 0 {
			for _, o := range vals {
				verifAssume(v != o) // explicit numbers are pairwise distinct
			}
			for _, c := range lits {
				verifAssume(v != int(c))
			}
			given[n] = v
			vals = append(vals, v)
		} else if _, seen := given[n]; !seen {
			given[n] = 0
		}
		defs = append(defs, TokenDef{IdentifyList: []Idendity{{Name: n, IDTyp: TERMID, Value: v}}})
	}
	for _, c := range lits {
		defs = append(defs, TokenDef{IdentifyList: []Idendity{{Name: genTempName(string(c)), IDTyp: TERMID, Value: int(c), Alias: string(c)}}})
	}
	decl := &DeclareNode{TokenDefList: defs, TypeDefList: []TypeDef{{Tag: "t", IdName: "N"}}, StartSym: "S"}
	v := &astDeclareVistor{idsymtabl: make(map[string]*Idendity), idMaxValue: 2}
	var node Node = decl
	v.Process(&node)

	var terms []*Idendity
	for _, n := range append([]string{genTempName("+"), genTempName("{")}, names...) {
		if id := v.idsymtabl[n]; id != nil && id.IDTyp == TERMID {
			terms = append(terms, id)
		}
	}
	for i, a := range terms {
		verifAssert(a.Value != -1, "C11: a token got the code of the end marker")
		verifAssert(a.Value != 0, "C11: a token was left without a code")
		for _, b := range terms[i+1:] {
			verifCover("pair")
			verifAssert(a.Value != b.Value, "C11: two terminals share one code")
		}
	}
	for n, g := range given {
		if g != 0 {
			verifCover("explicit")
			verifAssert(v.idsymtabl[n].Value == g, "C11: a token declared with a number did not keep it")
		}
	}
	for _, c := range lits {
		verifAssert(v.idsymtabl[genTempName(string(c))].Value == int(c), "C11: a character literal is not numbered by its character code")
	}
}
