package parser

// VerifLexBytes: Parse terminates on every ASCII text of length L (C13, byte level).
// prefixID selects a concrete seed that precedes the symbolic bytes.
func VerifLexBytes(prefixID int, L int) {
	verifUnwind(300)
	input := verifSeed(prefixID)
	tail := verifString("b", L)
	for i := 0; i < len(tail); i++ {
		verifAssume(tail[i] < 0x80)
	}
	input = input + tail
	verifParseOutcome(input)
	verifCover("terminated")
}

func verifSeed(id int) string {
	seeds := []string{"", "%union", "%{", "/*", "//", "'", "\"", "{", "$", "%token <", "%token", "%start", "%type", "%left", "%%", "%token A\n%%\nA:", "%%\nA : B %prec", "%token <t> A 'c'\n%type <t> B\n%start B\n%%\nB: A {x} |",
		// non-ASCII text: a digit that is not 0-9, a letter, an invalid byte
		"\u0663", "%token A\n\u0663", "\u00e9", "%token \u00e9", "\xff", "%%\nA: '\u00e9"}
	if id < 0 || id >= len(seeds) {
		return ""
	}
	return seeds[id]
}

// verifParseOutcome runs the grammar-file parser and swallows its diagnostics.
func verifParseOutcome(input string) (ok bool) {
	defer func() {
		if r := recover(); r != nil {
			k, _ := verifClassify(r)
			_ = k
			ok = false
		}
	}()
	root, err := Parse(input)
	if err != nil || root == nil {
		verifCover("diagnostic")
		return false
	}
	verifCover("parsed")
	return true
}
