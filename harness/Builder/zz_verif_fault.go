package builder

import (
	"strings"

	utils "github.com/acekingke/yaccgo/Utils"
)

const verifTinyGrammar = "%{\npackage gp\n%}\n%union {\n\tval int\n}\n%token <val> 'n'\n%type <val> L E\n%start L\n%%\nL : { $$ = 0 } | E L { $$ = $1 + $2 }\nE : 'n' { $$ = $1 }\n%%\nfunc GetToken(input string, valTy *ValType, pos *int) int { return -1 }\n// EPILOGUE-END"

// inputs whose failure is attributable to the input text
var verifBadInputs = []string{
	"%token A @\n%%\nS: A\n%%\n",                     // lexical error
	"%token A\n%%\nS A\n%%\n",                        // syntax error
	"%token A\n%start S\n%%\nS: A B\n%%\n",           // undefined symbol
	"%token A\n%start S\n%%\nS: A T\nT: T A\n%%\n",   // unproductive nonterminal
	"%union {\n v int\n}\n%token <v> A\n%type <v> S\n%start S\n%%\nS: A { $$ = $9 }\n%%\n", // out-of-range $n
	"%token <",                                       // truncated declaration
	"%union {\n v int\n}\n%token <v> A\n%type <v> S\n%start S\n%%\nS: A { $$ = $0 }\n%%\n", // $0: no such position
}

func verifGen(ts bool, text string) (failed bool, msg string) {
	defer func() {
		if r := recover(); r != nil {
			_, msg = verifClassify(r)
			failed = true
		}
	}()
	utils.PackFlags, utils.ObjectMode = true, false
	var err error
	if ts {
		err = TsGenFromString(text, "out.file")
	} else {
		err = TemplateGenFromString(text, "out.file")
	}
	if err != nil {
		return true, err.Error()
	}
	return false, ""
}

// verifTouched reports whether the output path was created/truncated or written.
func verifTouched(ev []string) bool {
	for _, e := range ev {
		if strings.HasPrefix(e, "create:") || strings.HasPrefix(e, "write:") || e == "template.execute" || e == "truncate" ||
			strings.HasPrefix(e, "open-") || strings.HasPrefix(e, "remove:out.file") || strings.HasPrefix(e, "rename:out.file") {
			return true
		}
	}
	return false
}

// VerifGenFaults: on a valid grammar, any step of the generation that can fail because of
// the input (ParseAndBuild, every build* step) is made to fail by a symbolic fault flag;
// a failed generation must not have touched the output file, a successful one must have
// written it completely (TS: last write is the epilogue, then Close).
func VerifGenFaults(tsI int) {
	ts := tsI == 1
	verifFaults(true)
	failed, _ := verifGen(ts, verifTinyGrammar)
	verifFaults(false)
	ev := verifEvents()
	if failed {
		verifCover("failed:" + verifFaultHit())
		verifAssert(!verifTouched(ev), "C19: generation failed in "+verifFaultHit()+" after the output file had been created or written")
		return
	}
	verifCover("succeeded")
	verifAssert(len(ev) >= 3 && strings.HasPrefix(ev[0], "create:out.file"), "C19: successful generation did not start by creating/truncating the output file (an older, longer file would keep its tail)")
	verifAssert(ev[len(ev)-1] == "close", "C19: output file not closed after a successful generation")
	if ts {
		last := ""
		for _, e := range ev {
			if strings.HasPrefix(e, "write:") {
				last = e
			}
		}
		verifAssert(strings.HasSuffix(last, "// EPILOGUE-END"), "C19: the last thing written is not the user's epilogue")
	} else {
		seen := false
		for _, e := range ev {
			if e == "template.execute" {
				seen = true
			}
		}
		verifAssert(seen, "C19: template was not executed into the output file")
	}
}

// VerifGenBadInput: real inputs that fail for input-caused reasons leave the file untouched.
func VerifGenBadInput(tsI int, which int) {
	failed, msg := verifGen(tsI == 1, verifBadInputs[which])
	verifCover("bad-input")
	verifAssert(failed, "C19: harness input was expected to be refused")
	verifAssert(!verifTouched(verifEvents()), "C19: a refused input ("+msg+") left the output file created or written")
}

// VerifGenShapes: the optional parts of a grammar file - the %{ %} section (which = 0), the
// text after the second %% (1), the second %% itself (2) - are left out; the generation must
// still succeed and produce exactly what it produces with the part present, minus that part
// (a complete file: tables, driver, remaining user code), created first and closed last.
func VerifGenShapes(tsI int, which int) {
	ts := tsI == 1
	pro := "\npackage gp\n// PROLOGUE-BODY\n"
	epi := "\nfunc GetToken(input string, valTy *ValType, pos *int) int { return -1 }\n// EPILOGUE-END"
	body := "%union {\n\tval int\n}\n%token <val> 'n'\n%type <val> L E\n%start L\n%%\nL : { $$ = 0 } | E L { $$ = $1 + $2 }\nE : 'n' { $$ = $1 }\n"
	full := "%{" + pro + "%}\n" + body + "%%" + epi
	other, removed := "", ""
	switch which {
	case 0:
		// blank lines instead of the section: the rule line numbers in the emitted comments stay the same
		other, removed = "\n\n\n\n"+body+"%%"+epi, pro
	case 1:
		other, removed = "%{"+pro+"%}\n"+body+"%%", epi
	default:
		other, removed = "%{"+pro+"%}\n"+body, epi
	}
	failed, msg := verifGen(ts, full)
	verifAssert(!failed, "C19: harness grammar refused: "+msg)
	a := verifFragments()
	verifAssert(len(a) > 200 && verifIndex(a, removed) >= 0, "C19: harness captured no generator output (vacuous)")
	failed, msg = verifGen(ts, other)
	verifAssert(!failed, "C19: a grammar without an optional part (prologue section / epilogue / second %%) was refused: "+msg)
	ev := verifEvents()
	b := verifFragments()
	verifCover("shape")
	k := verifIndex(a, removed)
	want := a
	if k >= 0 {
		want = a[:k] + a[k+len(removed):]
	}
	verifAssert(b == want, "C19: without an optional part of the file (prologue section / epilogue / second %%) the output is not the complete output minus that part")
	verifAssert(len(ev) >= 3 && strings.HasPrefix(ev[0], "create:out.file") && ev[len(ev)-1] == "close", "C19: successful generation did not create the file first and close it last")
}

func verifIndex(s, sub string) int {
	for i := 0; i+len(sub) <= len(s); i++ {
		if s[i:i+len(sub)] == sub {
			return i
		}
	}
	return -1
}
