package builder

import (
	utils "github.com/acekingke/yaccgo/Utils"
)

// VerifDeterministic: generation of grammar #id through the real entry point, once with
// every map iterated in insertion order and once with ONE dynamic map-iteration instance
// (a solver choice) iterated in an arbitrary order, must hand the same data to the
// template / the same strings to the output file (C14; Go's randomised map order is the schedule).
func VerifDeterministic(id int, variant int) {
	text := verifTexts[id]
	gen := func() string {
		utils.PackFlags, utils.ObjectMode = true, false
		var err error
		switch variant {
		case 0:
			err = TemplateGenFromString(text, "out.go")
		case 1:
			utils.PackFlags = false
			err = TemplateGenFromString(text, "out.go")
		case 2:
			utils.ObjectMode = true
			err = TemplateGenFromString(text, "out.go")
		default:
			err = TsGenFromString(text, "out.ts")
		}
		verifAssert(err == nil, "C14: generation of a corpus grammar failed")
		return verifFragments()
	}
	verifMapOrderInstance(-1)
	a := gen()
	verifAssert(len(a) > 200, "C14: harness captured no generator output (vacuous)")
	// the same run again, same iteration order: state kept from an earlier generation in the
	// process (a cache, a pooled buffer) must not show in the output
	a2 := gen()
	verifAssert(a == a2, "C14: a second generation in the same process produces a different output")
	n := verifRangeCount()
	verifAssume(n > 0)
	k := verifConc(verifPick("instance", n))
	verifMapOrderInstance(k)
	b := gen()
	verifCover("compared")
	verifAssert(a == b, "C14: output depends on the iteration order of the map ranged over at "+verifMapSite())
}
