package builder

// verifTexts is replaced (same overlay path) by the driver of C14 with the corpus grammars.
var verifTexts = []string{}
