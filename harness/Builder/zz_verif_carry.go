package builder

import (
	"os"

	utils "github.com/acekingke/yaccgo/Utils"
)

// C10, last sentence but one: "prologue, %union body and epilogue are carried into the
// output unchanged" - decided on what the real entry points hand to the template (Go) or
// write to the file (TypeScript), for code bodies containing the characters that mean
// something to fmt, text/template, regexp replacement or the action rewriting.
var verifSnippets = []string{
	"plain",
	"%d %s %v",
	"100% sure",
	"%%",
	"%!(NOVERB)",
	"{{.CodeHeader}}",
	"back\\slash \"dq\" 'sq' \\n",
	"`raw`",
	"$$ = $1 + $2",
	"tab\there",
	"${name} $&",
}

func verifContains(s, sub string) bool {
	for i := 0; i+len(sub) <= len(s); i++ {
		if s[i:i+len(sub)] == sub {
			return true
		}
	}
	return false
}

// VerifCarry: variant 0 go, 1 go -u, 2 go -o, 3 typescript; the snippet is a solver choice.
func VerifCarry(variant int) {
	k := verifConc(verifPick("snippet", len(verifSnippets)))
	sn := verifSnippets[k]
	ts := variant == 3
	prologue := "\npackage gp\n// P " + sn + "\n"
	union := "\n\tval int // U " + sn + "\n"
	epilogue := "\n// E " + sn + "\nfunc GetToken(input string, valTy *ValType, pos *int) int { return -1 }\n"
	if ts {
		prologue = "\n// P " + sn + "\n"
		union = "\n\tval :number; // U " + sn + "\n"
		epilogue = "\n// E " + sn + "\nfunction GetToken(input :string, model:{ValType :ValType, pos :number}) :number { return -1 }\n"
	}
	// the snippet inside an action body too (snippets with '$' are left to the action rewriting)
	inAction := "A " + sn
	dollar := false
	for i := 0; i < len(sn); i++ {
		if sn[i] == '$' {
			dollar = true
		}
	}
	if dollar {
		inAction = "A plain"
	}
	text := "%{" + prologue + "%}\n%union {" + union + "}\n%token <val> NUM 300\n%type <val> e\n%left '+'\n%start e\n%%\n" +
		"e : e '+' e { $$ = $1 + $3 }\n  | NUM { _ = \"" + inAction + "\"; $$ = $1 }\n  ;\n%%" + epilogue
	utils.PackFlags, utils.ObjectMode = true, false
	file := "out.txt"
	if verifIsReplay() {
		// native replay: a real file in a scratch directory, read back below
		dir, _ := os.MkdirTemp("", "verifcarry")
		defer os.RemoveAll(dir)
		file = dir + "/out.txt"
	}
	var err error
	switch variant {
	case 0:
		err = TemplateGenFromString(text, file)
	case 1:
		utils.PackFlags = false
		err = TemplateGenFromString(text, file)
	case 2:
		utils.ObjectMode = true
		err = TemplateGenFromString(text, file)
	default:
		err = TsGenFromString(text, file)
	}
	verifAssert(err == nil, "C10: generation failed for a grammar whose code bodies contain '"+sn+"'")
	out := verifFragments()
	if verifIsReplay() {
		b, _ := os.ReadFile(file)
		out = string(b)
	}
	verifAssert(len(out) > 200, "C10: harness captured no generator output (vacuous)")
	verifCover("carried")
	verifAssert(verifContains(out, prologue), "C10: the prologue does not reach the output unchanged (body contains '"+sn+"')")
	verifAssert(verifContains(out, union), "C10: the %union body does not reach the output unchanged (body contains '"+sn+"')")
	verifAssert(verifContains(out, epilogue), "C10: the epilogue does not reach the output unchanged (body contains '"+sn+"')")
	verifAssert(verifContains(out, "_ = \""+inAction+"\";"), "C10: an action body does not reach the output unchanged (body contains '"+inAction+"')")
}
