package lalr

import (
	grammar "github.com/acekingke/yaccgo/Grammar"
	rule "github.com/acekingke/yaccgo/Rules"
	symbol "github.com/acekingke/yaccgo/Symbol"
)

// VerifResolveCell: one table cell with two candidate actions goes through the real
// CheckAndResolveConflict (ResolveConflict + UseDefaultResolveConflict as chained there).
// Symbolic: kind of pair (shift/reduce or reduce/reduce), order of the candidates,
// precedence level and associativity of the token and of each rule.
func VerifResolveCell() {
	g := grammar.NewGrammar()
	g.GenStartSymbol()
	dollar := symbol.NewSymbol(1, "$")
	g.InsertNewSymbol(dollar)
	tok := symbol.NewSymbol(2, "t")
	g.InsertNewSymbol(tok)
	p1 := symbol.NewSymbol(3, "p1")
	g.InsertNewSymbol(p1)
	p2 := symbol.NewSymbol(4, "p2")
	g.InsertNewSymbol(p2)
	A := symbol.NewSymbol(5, "A")
	g.InsertNewSymbol(A)
	// a bystander: a third rule with a precedence of its own whose only lookahead is another
	// token; it is no candidate of the cell and must not influence it
	u := symbol.NewSymbol(6, "u")
	g.InsertNewSymbol(u)
	p3 := symbol.NewSymbol(7, "p3")
	g.InsertNewSymbol(p3)

	// precedence of the lookahead token and of the two rules' precedence symbols
	lvl := func(name string, s *symbol.Symbol) {
		pr := verifIntIn(name+"Prec", -1, 3)
		verifAssume(pr != 0)
		ty := verifIntIn(name+"Assoc", 0, 2)
		if pr == -1 {
			verifAssume(ty == int(symbol.NONE)) // a symbol without precedence keeps the default NONE
		}
		s.Prec = pr
		s.PrecType = symbol.E_Precedence(ty)
	}
	lvl("tok", tok)
	lvl("r1", p1)
	lvl("r2", p2)
	bystander := verifBool("bystander")
	if bystander {
		lvl("r3", p3)
		verifAssume(p3.Prec != -1)
		for _, o := range []*symbol.Symbol{tok, p1, p2} {
			if o.Prec == p3.Prec {
				verifAssume(o.PrecType == p3.PrecType)
			}
		}
	}
	// one %left/%right/%nonassoc line is one level: equal level => same associativity
	if tok.Prec == p1.Prec {
		verifAssume(tok.PrecType == p1.PrecType)
	}
	if tok.Prec == p2.Prec {
		verifAssume(tok.PrecType == p2.PrecType)
	}
	if p1.Prec == p2.Prec {
		verifAssume(p1.PrecType == p2.PrecType)
	}

	r0 := rule.NewProductoinRule(g.StartSymbol, []*symbol.Symbol{A})
	r1 := rule.NewProductoinRule(A, []*symbol.Symbol{tok})
	r2 := rule.NewProductoinRule(A, []*symbol.Symbol{tok, tok})
	if p1.Prec != -1 {
		r1.SetPrecSymbol(p1)
	}
	if p2.Prec != -1 {
		r2.SetPrecSymbol(p2)
	}
	g.InsertNewRules(r0)
	g.InsertNewRules(r1)
	g.InsertNewRules(r2)
	r3 := rule.NewProductoinRule(A, []*symbol.Symbol{u})
	if bystander {
		r3.SetPrecSymbol(p3)
	}
	g.InsertNewRules(r3)

	l := NewLALR(&g)
	shift := Transistor{Index: 0, q: 0, sym_or_rule: 2, to: 7}
	red1 := Transistor{Index: 1, q: 0, sym_or_rule: uint(1) | CheckMask, to: MaxInt}
	red2 := Transistor{Index: 2, q: 0, sym_or_rule: uint(2) | CheckMask, to: MaxInt}
	red3 := Transistor{Index: 3, q: 0, sym_or_rule: uint(3) | CheckMask, to: MaxInt}
	l.LookAheadSet[1] = []int{2}
	l.LookAheadSet[2] = []int{2}
	l.LookAheadSet[3] = []int{6}

	var list []Transistor
	sr := verifBool("shiftReduce")
	swap := verifBool("swap")
	if sr {
		verifCover("shift/reduce")
		if swap {
			list = []Transistor{red1, shift}
		} else {
			list = []Transistor{shift, red1}
		}
	} else {
		verifCover("reduce/reduce")
		if swap {
			list = []Transistor{red2, red1}
		} else {
			list = []Transistor{red1, red2}
		}
	}
	if bystander {
		verifCover("bystander")
		if verifBool("bystanderLast") {
			list = append(list, red3)
		} else {
			list = append([]Transistor{red3}, list...)
		}
	}
	set, err := l.CheckAndResolveConflict(0, list)
	verifAssert(err == nil, "C04: CheckAndResolveConflict failed")
	verifAssert(len(set[2]) == 1, "C04: cell not resolved to a single action")
	res := set[2][0]
	if bystander {
		verifAssert(len(set[6]) == 1 && set[6][0].ActionType == REDUCE && set[6][0].ActionIndex == -3, "C04: a cell with a single candidate does not hold it")
	}

	if sr {
		if tok.Prec != -1 && p1.Prec != -1 {
			switch {
			case p1.Prec > tok.Prec:
				verifAssert(res.ActionType == REDUCE && res.ActionIndex == -1, "C04: rule with higher precedence than the token must be reduced")
			case p1.Prec < tok.Prec:
				verifAssert(res.ActionType == SHIFT && res.ActionIndex == 7, "C04: token with higher precedence than the rule must be shifted")
			default:
				switch tok.PrecType {
				case symbol.LEFT:
					verifCover("equal-left")
					verifAssert(res.ActionType == REDUCE && res.ActionIndex == -1, "C04: equal precedence, %left must reduce")
				case symbol.RIGHT:
					verifCover("equal-right")
					verifAssert(res.ActionType == SHIFT && res.ActionIndex == 7, "C04: equal precedence, %right must shift")
				default:
					verifCover("equal-nonassoc")
					verifAssert(res.ActionType == ERROR, "C04: equal precedence, %nonassoc must be a syntax error")
				}
			}
		} else {
			verifCover("sr-default")
			verifAssert(res.ActionType == SHIFT && res.ActionIndex == 7, "C04: shift/reduce without applicable precedence must shift")
		}
	} else {
		// precedence is defined between a rule and a token: it never applies to two reductions
		if p1.Prec == -1 || p2.Prec == -1 {
			verifCover("rr-default")
		} else {
			verifCover("rr-both-prec")
		}
		verifAssert(res.ActionType == REDUCE && res.ActionIndex == -1, "C04: a reduce/reduce conflict must reduce by the rule that appears first (precedence applies to shift/reduce only)")
	}
}

// verifCellSetup builds the three-symbol grammar of VerifResolveCell with symbolic
// precedences and returns the automaton object and the three candidate transitions.
func verifCellSetup() (l *LALR1, tok, p1, p2 *symbol.Symbol, shift, red1, red2 Transistor) {
	g := grammar.NewGrammar()
	g.GenStartSymbol()
	dollar := symbol.NewSymbol(1, "$")
	g.InsertNewSymbol(dollar)
	tok = symbol.NewSymbol(2, "t")
	g.InsertNewSymbol(tok)
	p1 = symbol.NewSymbol(3, "p1")
	g.InsertNewSymbol(p1)
	p2 = symbol.NewSymbol(4, "p2")
	g.InsertNewSymbol(p2)
	A := symbol.NewSymbol(5, "A")
	g.InsertNewSymbol(A)
	lvl := func(name string, s *symbol.Symbol) {
		pr := verifIntIn(name+"Prec", -1, 3)
		verifAssume(pr != 0)
		ty := verifIntIn(name+"Assoc", 0, 2)
		if pr == -1 {
			verifAssume(ty == int(symbol.NONE))
		}
		s.Prec = pr
		s.PrecType = symbol.E_Precedence(ty)
	}
	lvl("tok", tok)
	lvl("r1", p1)
	lvl("r2", p2)
	if tok.Prec == p1.Prec {
		verifAssume(tok.PrecType == p1.PrecType)
	}
	if tok.Prec == p2.Prec {
		verifAssume(tok.PrecType == p2.PrecType)
	}
	if p1.Prec == p2.Prec {
		verifAssume(p1.PrecType == p2.PrecType)
	}
	r0 := rule.NewProductoinRule(g.StartSymbol, []*symbol.Symbol{A})
	r1 := rule.NewProductoinRule(A, []*symbol.Symbol{tok})
	r2 := rule.NewProductoinRule(A, []*symbol.Symbol{tok, tok})
	if p1.Prec != -1 {
		r1.SetPrecSymbol(p1)
	}
	if p2.Prec != -1 {
		r2.SetPrecSymbol(p2)
	}
	g.InsertNewRules(r0)
	g.InsertNewRules(r1)
	g.InsertNewRules(r2)
	l = NewLALR(&g)
	shift = Transistor{Index: 0, q: 0, sym_or_rule: 2, to: 7}
	red1 = Transistor{Index: 1, q: 0, sym_or_rule: uint(1) | CheckMask, to: MaxInt}
	red2 = Transistor{Index: 2, q: 0, sym_or_rule: uint(2) | CheckMask, to: MaxInt}
	l.LookAheadSet[1] = []int{2}
	l.LookAheadSet[2] = []int{2}
	return
}

// VerifResolveCell3: a cell with three candidates (a shift and two reductions) in any order.
// The statement's pairwise rules define a tournament; when one candidate beats both others
// every order of pairwise resolution ends with it, and the cell must hold it. Cells without
// such a candidate (cyclic preferences, %nonassoc ties) are outside the claim.
func VerifResolveCell3() {
	l, tok, p1, p2, shift, red1, red2 := verifCellSetup()
	cands := []Transistor{shift, red1, red2}
	perm := verifIntIn("order", 0, 5)
	orders := [][3]int{{0, 1, 2}, {0, 2, 1}, {1, 0, 2}, {1, 2, 0}, {2, 0, 1}, {2, 1, 0}}
	o := orders[verifConc(perm)]
	list := []Transistor{cands[o[0]], cands[o[1]], cands[o[2]]}
	set, err := l.CheckAndResolveConflict(0, list)
	verifAssert(err == nil, "C04: CheckAndResolveConflict failed")
	verifAssert(len(set[2]) == 1, "C04: cell not resolved to a single action")
	res := set[2][0]
	// 1 the reduction beats the shift, -1 the shift beats it, 0 neither (%nonassoc tie)
	vsShift := func(p *symbol.Symbol) int {
		if tok.Prec == -1 || p.Prec == -1 {
			return -1
		}
		switch {
		case p.Prec > tok.Prec:
			return 1
		case p.Prec < tok.Prec:
			return -1
		}
		switch tok.PrecType {
		case symbol.LEFT:
			return 1
		case symbol.RIGHT:
			return -1
		}
		return 0
	}
	a, b := vsShift(p1), vsShift(p2)
	switch {
	case a == 1:
		// rule 1 beats the shift and, being the earlier rule, rule 2
		verifCover("three-first-rule")
		verifAssert(res.ActionType == REDUCE && res.ActionIndex == -1, "C04: three candidates: the earlier rule beats the shift by precedence and must be reduced")
	case a == -1 && b == -1:
		verifCover("three-shift")
		verifAssert(res.ActionType == SHIFT && res.ActionIndex == 7, "C04: three candidates: the shift beats both reductions and must be taken")
	default:
		verifCover("three-open")
	}
}
