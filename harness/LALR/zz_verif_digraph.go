package lalr

// VerifDigraph (C03-U): for every relation R with E edges over n nodes (endpoints are
// solver choices), singleton base sets Fp (visiting order fixed w.l.o.g.), Digraph computes
// F(x) = union of Fp(y) over all y reachable from x (reflexive-transitive closure).
func VerifDigraph(n, E int) { verifDigraphSized(n, E, 0) }

// VerifDigraphSized: as VerifDigraph, but the base set of node i has as many elements as
// the i-th decimal digit of mask (from the right), built by append (so a set of 3 has
// spare capacity) - sharing of backing arrays between result sets then shows up.
func VerifDigraphSized(n, E, mask int) { verifDigraphSized(n, E, mask) }

func verifDigraphSized(n, E, mask int) {
	// visiting order 0..n-1: without loss of generality, because the relation is arbitrary
	// (any order with any relation is this order with the relation renamed)
	var X []int
	for i := 0; i < n; i++ {
		X = append(X, i)
	}
	var R []Relation
	adj := make([][]bool, n)
	for i := range adj {
		adj[i] = make([]bool, n)
	}
	for e := 0; e < E; e++ {
		x := verifConc(verifPick("from", n))
		y := verifConc(verifPick("to", n))
		R = append(R, Relation{Index: e, x: x, y: y})
		adj[x][y] = true
	}
	Fp := map[int][]int{}
	F := map[int][]int{}
	base := make([][]int, n)
	for i := 0; i < n; i++ {
		switch {
		case mask == 0:
			base[i] = []int{100 + i}
		default:
			size := mask
			for k := 0; k < i; k++ {
				size /= 10
			}
			size %= 10
			var b []int
			for k := 0; k < size; k++ {
				b = append(b, 100+10*i+k)
			}
			base[i] = b
		}
		Fp[i] = base[i]
		F[i] = []int{}
	}
	Digraph(X, R, Fp, &F)
	// reference: Warshall
	reach := make([][]bool, n)
	for i := range reach {
		reach[i] = make([]bool, n)
		reach[i][i] = true
		for j := 0; j < n; j++ {
			if adj[i][j] {
				reach[i][j] = true
			}
		}
	}
	for k := 0; k < n; k++ {
		for i := 0; i < n; i++ {
			for j := 0; j < n; j++ {
				if reach[i][k] && reach[k][j] {
					reach[i][j] = true
				}
			}
		}
	}
	cyc := false
	for i := 0; i < n; i++ {
		for j := 0; j < n; j++ {
			if i != j && reach[i][j] && reach[j][i] {
				cyc = true
			}
		}
	}
	if cyc {
		verifCover("cycle")
	} else {
		verifCover("acyclic")
	}
	for i := 0; i < n; i++ {
		for j := 0; j < n; j++ {
			for _, want := range base[j] {
				has := false
				for _, v := range F[i] {
					if v == want {
						has = true
					}
				}
				if reach[i][j] {
					verifAssert(has, "C03: Digraph lost an element of a set reachable through the relation")
				} else {
					verifAssert(!has, "C03: Digraph added an element that is not reachable through the relation")
				}
			}
		}
	}
}

// VerifDigraphChain (C03-U): two chained closures as in ComputeLALR, where the result of one
// Digraph run is the base family of the next (Read = closure of DR under reads, Follow =
// closure of Read under includes).  R1 has E1 edges, R2 has E2 edges (endpoints are solver
// choices), base set sizes as in VerifDigraphSized.  Result sets of the first run may share
// backing arrays (all members of a strongly connected component get one slice), and the
// second run appends to them.
func VerifDigraphChain(n, E1, E2, mask int) {
	var X []int
	for i := 0; i < n; i++ {
		X = append(X, i)
	}
	mk := func(tag string, E int) ([]Relation, [][]bool) {
		var R []Relation
		adj := make([][]bool, n)
		for i := range adj {
			adj[i] = make([]bool, n)
			adj[i][i] = true
		}
		for e := 0; e < E; e++ {
			x := verifConc(verifPick(tag+"from", n))
			y := verifConc(verifPick(tag+"to", n))
			R = append(R, Relation{Index: e, x: x, y: y})
			adj[x][y] = true
		}
		for k := 0; k < n; k++ {
			for i := 0; i < n; i++ {
				for j := 0; j < n; j++ {
					if adj[i][k] && adj[k][j] {
						adj[i][j] = true
					}
				}
			}
		}
		return R, adj
	}
	R1, reach1 := mk("a", E1)
	R2, reach2 := mk("b", E2)
	Fp := map[int][]int{}
	F1 := map[int][]int{}
	F2 := map[int][]int{}
	base := make([][]int, n)
	for i := 0; i < n; i++ {
		size := mask
		for k := 0; k < i; k++ {
			size /= 10
		}
		size %= 10
		var b []int
		for k := 0; k < size; k++ {
			b = append(b, 100+10*i+k)
		}
		base[i] = b
		Fp[i] = b
		F1[i] = []int{}
		F2[i] = []int{}
	}
	Digraph(X, R1, Fp, &F1)
	Digraph(X, R2, F1, &F2)
	cyc := false
	for i := 0; i < n; i++ {
		for j := 0; j < n; j++ {
			if i != j && reach1[i][j] && reach1[j][i] {
				cyc = true
			}
		}
	}
	verifAssume(!cyc)
	cyc2 := false
	for i := 0; i < n; i++ {
		for j := 0; j < n; j++ {
			if i != j && reach2[i][j] && reach2[j][i] {
				cyc2 = true
			}
		}
	}
	if cyc2 {
		verifCover("cycle in the second relation")
	}
	for i := 0; i < n; i++ {
		for k := 0; k < n; k++ {
			want := false
			for j := 0; j < n; j++ {
				if reach2[i][j] && reach1[j][k] {
					want = true
				}
			}
			for _, el := range base[k] {
				has := false
				for _, v := range F2[i] {
					if v == el {
						has = true
					}
				}
				if want {
					verifAssert(has, "C03: two chained Digraph runs lost an element of a reachable set")
				} else {
					verifAssert(!has, "C03: two chained Digraph runs added an element that is not reachable")
				}
			}
		}
	}
}
