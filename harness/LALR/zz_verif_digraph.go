package lalr

// VerifDigraph (C03-U): for every relation R with E edges over n nodes (endpoints are
// solver choices), singleton base sets Fp (visiting order fixed w.l.o.g.), Digraph computes
// F(x) = union of Fp(y) over all y reachable from x (reflexive-transitive closure).
func VerifDigraph(n, E int) { verifDigraphSized(n, E, 0) }

// VerifDigraphSized: as VerifDigraph, but the base set of node i has as many elements as
// the i-th decimal digit of mask (from the right), built by append (so a set of 3 has
// spare capacity) - sharing of backing arrays between result sets then shows up.
func VerifDigraphSized(n, E, mask int) { verifDigraphSized(n, E, mask) }

func verifDigraphSized(n, E, mask int) {
	// visiting order 0..n-1: without loss of generality, because the relation is arbitrary
	// (any order with any relation is this order with the relation renamed)
	var X []int
	for i := 0; i < n; i++ {
		X = append(X, i)
	}
	var R []Relation
	adj := make([][]bool, n)
	for i := range adj {
		adj[i] = make([]bool, n)
	}
	for e := 0; e < E; e++ {
		x := verifConc(verifPick("from", n))
		y := verifConc(verifPick("to", n))
		R = append(R, Relation{Index: e, x: x, y: y})
		adj[x][y] = true
	}
	Fp := map[int][]int{}
	F := map[int][]int{}
	base := make([][]int, n)
	for i := 0; i < n; i++ {
		switch {
		case mask == 0:
			base[i] = []int{100 + i}
		default:
			size := mask
			for k := 0; k < i; k++ {
				size /= 10
			}
			size %= 10
			var b []int
			for k := 0; k < size; k++ {
				b = append(b, 100+10*i+k)
			}
			base[i] = b
		}
		Fp[i] = base[i]
		F[i] = []int{}
	}
	Digraph(X, R, Fp, &F)
	// reference: Warshall
	reach := make([][]bool, n)
	for i := range reach {
		reach[i] = make([]bool, n)
		reach[i][i] = true
		for j := 0; j < n; j++ {
			if adj[i][j] {
				reach[i][j] = true
			}
		}
	}
	for k := 0; k < n; k++ {
		for i := 0; i < n; i++ {
			for j := 0; j < n; j++ {
				if reach[i][k] && reach[k][j] {
					reach[i][j] = true
				}
			}
		}
	}
	cyc := false
	for i := 0; i < n; i++ {
		for j := 0; j < n; j++ {
			if i != j && reach[i][j] && reach[j][i] {
				cyc = true
			}
		}
	}
	if cyc {
		verifCover("cycle")
	} else {
		verifCover("acyclic")
	}
	for i := 0; i < n; i++ {
		for j := 0; j < n; j++ {
			for _, want := range base[j] {
				has := false
				for _, v := range F[i] {
					if v == want {
						has = true
					}
				}
				if reach[i][j] {
					verifAssert(has, "C03: Digraph lost an element of a set reachable through the relation")
				} else {
					verifAssert(!has, "C03: Digraph added an element that is not reachable through the relation")
				}
			}
		}
	}
}
