package grammar

import (
	item "github.com/acekingke/yaccgo/Items"
	rule "github.com/acekingke/yaccgo/Rules"
	symbol "github.com/acekingke/yaccgo/Symbol"
)

// VerifDedup: a closure is recognised as already present exactly when it has the same
// item set as an existing state, whatever the order in which the items were inserted
// (sort inside ComputeIClosure + LR0.CheckIsExist).
func VerifDedup(n, m int) {
	g := NewGrammar()
	g.GenStartSymbol()
	// four rules A -> t t t over a terminal: nothing to close over, the sort still runs
	t := symbol.NewSymbol(2, "t")
	g.InsertNewSymbol(t)
	for i := 0; i < 4; i++ {
		g.InsertNewRules(rule.NewProductoinRule(g.StartSymbol, []*symbol.Symbol{t, t, t}))
	}
	mk := func(tag string, k int) (*item.ItemCloure, [][2]int) {
		ic := item.NewItemCloure()
		var list [][2]int
		for i := 0; i < k; i++ {
			r := verifIntIn(tag+"rule", 0, 3)
			d := verifIntIn(tag+"dot", 0, 3)
			if ic.InsertItem(item.NewItem(r, d)) == 1 {
				list = append(list, [2]int{r, d})
			}
		}
		return ic, list
	}
	a, la := mk("a", n)
	b, lb := mk("b", m)
	verifSortOnly(&g, a)
	verifSortOnly(&g, b)
	g.LR0.InsertItemClosure(a, true)
	idx, found := g.LR0.CheckIsExist(b)
	// reference: equal as sets
	same := len(la) == len(lb)
	if same {
		for _, x := range la {
			in := false
			for _, y := range lb {
				if x == y {
					in = true
				}
			}
			if !in {
				same = false
			}
		}
	}
	if same {
		verifCover("found")
		verifAssert(found && idx == 0, "C09: a closure equal to an existing state is not recognised (duplicate state)")
	} else {
		verifCover("not-found")
		verifAssert(!found, "C09: a closure different from every state is taken for an existing one (missing state)")
	}
}

// verifSortOnly applies ComputeIClosure to an item set whose items have nothing to close
// over (the production list holds rules with empty right-hand sides only).
func verifSortOnly(g *Grammar, ic *item.ItemCloure) {
	g.ComputeIClosure(ic)
}
