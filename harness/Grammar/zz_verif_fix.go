package grammar

import (
	rule "github.com/acekingke/yaccgo/Rules"
	symbol "github.com/acekingke/yaccgo/Symbol"
)

// VerifFixpoints: for every grammar with R rules over nonterminals {X,Y,Z} and terminals
// {a,b} (right-hand sides of length <= maxLen, every symbol a solver choice), the set
// CalculateCanTerminate reports is exactly the set of unproductive nonterminals and
// IsEpsilonClosure is exactly the set of nullable nonterminals (least fixpoints).
func VerifFixpoints(R, maxLen, nameMode int) {
	g := NewGrammar()
	g.GenStartSymbol()
	dollar := symbol.NewSymbol(1, "$")
	g.InsertNewSymbol(dollar)
	names := []string{"a", "b", "X", "Y", "Z"}
	if nameMode == 1 {
		// the user's start symbol may carry the default name, which the augmented symbol has too
		names[2] = "start"
	}
	var all []*symbol.Symbol
	for i, n := range names {
		s := symbol.NewSymbol(uint(i+2), n)
		if i >= 2 {
			s.SetNT()
		}
		g.InsertNewSymbol(s)
		all = append(all, s)
	}
	nts := all[2:]
	// rule 0: start -> X
	g.InsertNewRules(rule.NewProductoinRule(g.StartSymbol, []*symbol.Symbol{nts[0]}))
	lhsIdx := make([]int, R)
	rhsIdx := make([][]int, R)
	for r := 0; r < R; r++ {
		li := verifPick("lhs", 3)
		li = verifConc(li) // the left-hand side keys a map in InsertNewRules
		lhsIdx[r] = li
		n := verifConc(verifIntIn("len", 0, maxLen))
		var rhs []*symbol.Symbol
		for j := 0; j < n; j++ {
			k := verifPick("rhs", 5)
			rhsIdx[r] = append(rhsIdx[r], k)
			rhs = append(rhs, all[k])
		}
		g.InsertNewRules(rule.NewProductoinRule(nts[li], rhs))
	}
	g.ResolveSymbols()
	g.CalculateEpsilonClosure()
	bad := g.CalculateCanTerminate()

	// reference: least fixpoints by R+1 rounds over bit masks (bit k = symbol all[k])
	prod := 3 // terminals a, b are productive
	null := 0
	for round := 0; round <= R; round++ {
		for r := 0; r < R; r++ {
			p, n := 1, 1
			for _, k := range rhsIdx[r] {
				p &= (prod >> uint(k)) & 1
				n &= (null >> uint(k)) & 1
			}
			prod |= p << uint(lhsIdx[r]+2)
			null |= n << uint(lhsIdx[r]+2)
		}
	}
	// the start symbol "start" is productive iff X is
	for i, s := range nts {
		defined := false
		for r := 0; r < R; r++ {
			if lhsIdx[r] == i {
				defined = true
			}
		}
		if !defined {
			continue // a nonterminal without rules is rejected earlier, by BuildLALR1's left-part check
		}
		wantProd := (prod>>uint(i+2))&1 == 1
		reported := false
		for _, b := range bad {
			if b == s {
				reported = true
			}
		}
		if wantProd {
			verifCover("productive")
		} else {
			verifCover("unproductive")
		}
		verifAssert(reported == !wantProd, "C12: the set of nonterminals reported as unable to derive a terminal string is wrong")
		wantNull := (null>>uint(i+2))&1 == 1
		if wantNull {
			verifCover("nullable")
		}
		verifAssert(s.IsEpsilonClosure == wantNull, "C12: nullable set is not the least fixpoint")
	}
}
