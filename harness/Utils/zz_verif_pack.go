package utils

// VerifPackRoundTrip: for every r x c integer matrix, UnPackTable(PackTable(m)) == m.
func VerifPackRoundTrip(r, c int) {
	tab := make([][]int, r)
	orig := make([][]int, r)
	for i := 0; i < r; i++ {
		tab[i] = make([]int, c)
		orig[i] = make([]int, c)
		for j := 0; j < c; j++ {
			v := verifInt("cell")
			tab[i][j] = v
			orig[i][j] = v
		}
	}
	T, D, C := PackTable(tab)
	verifCover("packed")
	if len(T) > 0 && len(D) > 0 && D[0] < 0 {
		verifCover("trimmed")
	}
	back := UnPackTable(r, c, T, D, C)
	for i := 0; i < r; i++ {
		for j := 0; j < c; j++ {
			verifAssert(back[i][j] == orig[i][j], "UnPackTable(PackTable(m)) differs from m")
		}
	}
}
