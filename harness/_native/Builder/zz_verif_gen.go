package builder

import (
	"fmt"
	"os"

	lalr "github.com/acekingke/yaccgo/LALR"
	parser "github.com/acekingke/yaccgo/Parser"
	utils "github.com/acekingke/yaccgo/Utils"
)

// VerifGenPair generates the packed and the unpacked Go parser from ONE ParseAndBuild, so
// that state and symbol numbers agree between the two files and the dump (native only).
func VerifGenPair(input, packedFile, unpackedFile string) (*lalr.VerifDumpT, error) {
	w, err := parser.ParseAndBuild(input)
	if err != nil {
		return nil, fmt.Errorf("parse error: %s", err)
	}
	dump := lalr.VerifDump(w.VistorNode.(*parser.RootVistor).LALR1)
	saved := utils.PackFlags
	defer func() { utils.PackFlags = saved }()
	for _, pack := range []bool{true, false} {
		utils.PackFlags = pack
		b := NewTemplateBuilder(w)
		b.buildConstPart()
		b.buildUionAndCode()
		b.buildAnalyTable()
		b.buildStateFunc()
		b.buildReduceFunc()
		b.buildTranslate()
		file := unpackedFile
		if pack {
			file = packedFile
		}
		f, err := os.Create(file)
		if err != nil {
			return nil, err
		}
		b.WriteFile(f)
	}
	return dump, nil
}

// VerifDumpOnly parses and builds, returning the artefacts.
func VerifDumpOnly(input string) (*lalr.VerifDumpT, error) {
	w, err := parser.ParseAndBuild(input)
	if err != nil {
		return nil, err
	}
	return lalr.VerifDump(w.VistorNode.(*parser.RootVistor).LALR1), nil
}
