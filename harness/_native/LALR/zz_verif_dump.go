package lalr

// Read-only dump of the artefacts of one ParseAndBuild (injected by overlay, native only).

type VerifItem struct{ Rule, Dot int }
type VerifGoto struct {
	Sym int
	To  int
}
type VerifState struct {
	Index int
	Items []VerifItem
	Gotos []VerifGoto
}
type VerifSym struct {
	ID       int
	Name     string
	Value    int
	Tag      string
	IsNT     bool
	Nullable bool
	Prec     int
	PrecType int
}
type VerifRule struct {
	Lhs      int
	Rhs      []int
	PrecSym  int // -1 none
	Prec     int
	PrecType int
}
type VerifLA struct {
	State int
	Rule  int
	Syms  []int
}
type VerifDumpT struct {
	Symbols    []VerifSym
	Rules      []VerifRule
	States     []VerifState
	LA         []VerifLA
	GTable     [][]int
	NeedPacked bool
	Action     []int
	Offset     []int
	Check      []int
	ActDef     []int
	GotoDef    []int
	NTerminals int
	ErrorCode  int
	AcceptCode int
}

func VerifDump(l *LALR1) *VerifDumpT {
	d := &VerifDumpT{}
	for _, s := range l.G.Symbols {
		d.Symbols = append(d.Symbols, VerifSym{ID: int(s.ID), Name: s.Name, Value: s.Value, Tag: s.Tag,
			IsNT: s.IsNonTerminator, Nullable: s.IsEpsilonClosure, Prec: s.Prec, PrecType: int(s.PrecType)})
	}
	for _, r := range l.G.ProductoinRules {
		vr := VerifRule{Lhs: int(r.LeftPart.ID), PrecSym: -1, Prec: -1, PrecType: 2}
		for _, x := range r.RighPart {
			vr.Rhs = append(vr.Rhs, int(x.ID))
		}
		if r.PrecSymbol != nil {
			vr.PrecSym = int(r.PrecSymbol.ID)
			vr.Prec = r.PrecSymbol.Prec
			vr.PrecType = int(r.PrecSymbol.PrecType)
		}
		d.Rules = append(d.Rules, vr)
	}
	for _, ic := range l.G.LR0.LR0Closure {
		vs := VerifState{Index: ic.Index}
		for _, it := range ic.Items {
			vs.Items = append(vs.Items, VerifItem{it.RuleIndex, it.Dot})
		}
		for _, g := range ic.GoTo {
			vs.Gotos = append(vs.Gotos, VerifGoto{int(g.Sym.ID), g.ItemCl})
		}
		d.States = append(d.States, vs)
	}
	for _, tr := range l.trans {
		if tr.sym_or_rule&CheckMask != 0 {
			d.LA = append(d.LA, VerifLA{State: tr.q, Rule: int(tr.sym_or_rule & Mask), Syms: append([]int(nil), l.LookAheadSet[tr.Index]...)})
		}
	}
	d.GTable = l.GTable
	d.NeedPacked = l.NeedPacked
	d.Action, d.Offset, d.Check, d.ActDef, d.GotoDef = l.ActionTable, l.OffsetTable, l.CheckTable, l.ActionDef, l.GoToDef
	d.NTerminals = len(l.G.VtSet)
	d.ErrorCode, d.AcceptCode = l.GenErrorCode(), l.GenAcceptCode()
	return d
}
