#!/bin/bash
# Runs every registered check (quick by default) and prints one line each.
tier=${1:-quick}
for id in $(python3 -c "import json;print(' '.join(c['property_id'] for c in json.load(open('/verif/MANIFEST.json'))['checks']))"); do
  s=$(date +%s.%N)
  out=$(/verif/bin/vcheck run $id --tier $tier 2>&1); rc=$?
  e=$(date +%s.%N)
  printf "%s rc=%d %.1fs %s\n" $id $rc $(echo "$e - $s" | bc) "$(echo "$out" | tail -1 | cut -c1-150)"
done
