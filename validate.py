#!/usr/bin/env python3
import json, jsonschema, sys, glob
jsonschema.validate(json.load(open('/verif/MANIFEST.json')), json.load(open('/root/.vp/MANIFEST.schema.json')))
m=json.load(open('/verif/MANIFEST.json'))
sch=json.load(open('/root/.vp/EVIDENCE.schema.json'))
for c in m['checks']:
    try:
        jsonschema.validate(json.load(open(c['evidence_file'])), sch)
    except Exception as e:
        print("BAD", c['property_id'], str(e)[:300])
print("validated", len(m['checks']), "checks")
