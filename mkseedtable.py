#!/usr/bin/env python3
"""Regenerates the seeded-changes table of DESIGN.md (between the SEEDTABLE markers) from seeded/*/meta.json."""
import json, glob, os, re
rows = []
for d in sorted(glob.glob('/verif/seeded/C*/')):
    m = json.load(open(d + 'meta.json'))
    name = os.path.basename(d.rstrip('/'))
    rows.append((m['property'], name, m['what'], m['needs_to_manifest'], '; '.join(m['caught_by'])))
out = ["| property | seeded change (`seeded/<name>/`) | what it does | needs | caught by |", "|---|---|---|---|---|"]
for r in rows:
    out.append("| %s | `%s` | %s | %s | %s |" % tuple(x.replace('|', '\\|') for x in r))
table = "\n".join(out)
p = '/verif/DESIGN.md'
s = open(p).read()
s = re.sub(r'<!-- SEEDTABLE -->.*?<!-- /SEEDTABLE -->', '<!-- SEEDTABLE -->\n' + table + '\n<!-- /SEEDTABLE -->', s, flags=re.S)
open(p, 'w').write(s)
print(len(rows), "rows")
