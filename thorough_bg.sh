#!/bin/bash
# Background calibration of the thorough tier from a snapshot (vp run): builds its own binary, uses the snapshot as VERIF_HOME.
export GOFLAGS=-mod=mod GOPROXY=off GOSUMDB=off GOTOOLCHAIN=local
export VERIF_HOME=$PWD
(cd tool && go build -o ../bin/vcheck ./cmd/vcheck) || exit 2
for id in "$@"; do
  s=$(date +%s)
  out=$(./bin/vcheck run $id --tier thorough 2>&1); rc=$?
  e=$(date +%s)
  echo "$id rc=$rc $((e-s))s $(echo "$out" | tail -1 | cut -c1-200)"
  if [ $rc -ne 0 ]; then echo "$out" | grep -E "INCONCLUSIVE|VIOLATION|what:" | head -8 | cut -c1-300; fi
done
