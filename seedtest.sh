#!/bin/bash
# seedtest.sh <patch.diff> <check ids...>: apply a seeded change to /repo, run repo tests and the given checks, undo.
# Prints one line per check. Never leaves /repo modified.
set -u
patch=$1; shift
export GOFLAGS=-mod=mod GOPROXY=off GOSUMDB=off GOTOOLCHAIN=local
cd /repo || exit 2
if [ -n "$(git status --porcelain)" ]; then echo "repo not clean"; exit 2; fi
if ! git apply "$patch"; then echo "patch does not apply"; exit 2; fi
trap 'cd /repo && git checkout -- . && git clean -fdq' EXIT
if ! go build ./... 2>&1 | tail -3; then echo "BUILD FAILED"; fi
t=$(go test -vet=off -count=1 ./... 2>&1 | grep -v "no test files" | grep -vc "^ok")
echo "repo tests: non-ok lines=$t"
tier=${TIER:-quick}
for id in "$@"; do
  s=$(date +%s)
  out=$(/verif/bin/vcheck run $id --tier $tier 2>&1); rc=$?
  e=$(date +%s)
  echo "$id rc=$rc $((e-s))s $(echo "$out" | grep -c '^VIOLATION') violations; $(echo "$out" | grep -m1 'what:' | cut -c1-200)"
  if [ $rc -eq 2 ]; then echo "$out" | grep -m3 INCONCLUSIVE | cut -c1-240; fi
done
