#!/bin/bash
# seedtest.sh <patch.diff> <check ids...>: try a seeded change in a scratch worktree of /repo (never /repo itself):
# apply, build, run the repo tests and the given checks against the worktree (VERIF_REPO), remove the worktree.
set -u
patch=$1; shift
export GOFLAGS=-mod=mod GOPROXY=off GOSUMDB=off GOTOOLCHAIN=local
wt=$(mktemp -d /tmp/seedrun-XXXXXX)
rmdir "$wt"
git -C /repo worktree add -q --detach "$wt" ${BASE:-HEAD} || exit 2
trap 'git -C /repo worktree remove --force "$wt" 2>/dev/null; rm -rf "$wt"' EXIT
cd "$wt" || exit 2
if ! git apply "$patch" 2>/dev/null; then
  # later fix commits may have moved the context: try a three-way merge before giving up
  if ! git apply --3way "$patch" >/dev/null 2>&1 || git diff --name-only --diff-filter=U | grep -q .; then echo "patch does not apply"; exit 2; fi
fi
go build ./... 2>&1 | tail -3
t=$(go test -vet=off -count=1 ./... 2>&1 | grep -v "no test files" | grep -vc "^ok")
echo "repo tests: non-ok lines=$t"
tier=${TIER:-quick}
for id in "$@"; do
  s=$(date +%s)
  out=$(VERIF_REPO="$wt" /verif/bin/vcheck run $id --tier $tier 2>&1); rc=$?
  e=$(date +%s)
  echo "$id rc=$rc $((e-s))s $(echo "$out" | grep -c '^VIOLATION') violations; $(echo "$out" | grep -m1 'what:' | cut -c1-220)"
  if [ $rc -eq 2 ]; then echo "$out" | grep -m3 INCONCLUSIVE | cut -c1-240; fi
done
