#!/usr/bin/env python3
"""Regenerates MANIFEST.json from the table below (single source of truth)."""
import json

ENV = "GOFLAGS=-mod=mod GOPROXY=off GOSUMDB=off GOTOOLCHAIN=local"
props = [json.loads(l)["id"] for l in open("/verif/properties.jsonl")]

G_NOTE = ("Trusted base: gosym's go/ssa semantics (validated by native replay of every reported model and by the self-test), Z3 4.8.12, "
          "the harness reference code in harness/gen/ref.go.txt, the Go front end used to load the generated parser. "
          "Bounded: token strings up to N, corpus grammars only. The TypeScript output is executed by tsmini (own front end for the emitted subset, same term/solver layer, JS numbers modelled as 64-bit integers) and every TS finding is replayed under node 20 on the type-stripped file.")

checks = {
 "C01": dict(cat="model_checking", ref="§5, §8 C01", technique="symbolic execution of the generated parser (go/ssa -> SMT, Z3) over N unconstrained token codes; derivation replay oracle",
   text="For each corpus grammar and each Go variant, every feasible path of the emitted Parser() over N arbitrary int64 token codes/values is explored; on accepting paths the reduction log must be a rightmost derivation of exactly the input, decided by Z3 per path. Bounded model checking of the real emitted code; right level because acceptance depends on every table cell the tokens can reach.",
   note=G_NOTE),
 "C02": dict(cat="model_checking", ref="§5, §8 C02", technique="symbolic execution of the generated parser; Earley viable-prefix oracle on the same symbolic tokens",
   text="On every rejecting path of the emitted parser of an LALR(1) corpus grammar the rejected prefix must not be a viable prefix (Earley recogniser run in the same engine); so no sentence of length <= N is rejected.",
   note=G_NOTE + " The LALR(1) classification of corpus grammars is a tag of the corpus, confirmed by C03's Horn model."),
 "C03": dict(cat="translation_validation", ref="§6, §8 C03", technique="Z3 fixed-point (datalog) Horn specification of LR(1) items vs. the dumped lookahead sets and warnings of the real generator",
   text="The real generator runs natively per grammar; its LookAheadSet and conflict warnings are compared by Z3's datalog engine with the least model of a Horn specification of LALR(1) (LR(1) items merged by core): relations missing/extra/missingWarn/spuriousWarn must be empty. Translation validation per grammar: the solver decides the output of CalcLookAheadSet, it does not execute it.",
   note="Trusted base: the Horn spec in tool/checks/horn.go, Z3 datalog engine (cross-checked against z3 5.1.0 in thorough), the overlay dump helper harness/_native/LALR/zz_verif_dump.go. Corpus: fixed families + seeded random (+ all 2098 tiny grammars in thorough)."),
 "C05": dict(cat="model_checking", ref="§8 C05", technique="symbolic execution of Utils.PackTable/UnPackTable (go/ssa -> SMT, Z3) on matrices with every cell symbolic",
   text="PackTable+UnPackTable are executed symbolically on all r x c matrices with r*c <= 8 (12 thorough), every cell an unconstrained int64; the cell-wise round trip is decided by Z3 on each of the 2^(r*c) zero-pattern paths.",
   note="Trusted base: gosym semantics, Z3, sort.SliceStable modelled as a stable insertion sort. Matrices beyond the bound are outside the claim."),
 "C06": dict(cat="model_checking", ref="§5, §8 C06", technique="symbolic execution of the generated parser; outcome classification + Earley oracle",
   text="Every non-accepting path of the emitted parser must end in a panic whose text starts with 'Grammar error' (never a runtime error / nil result), and for LALR(1) corpus grammars at the first token that cannot continue a sentence, with exactly that many tokens requested.",
   note=G_NOTE),
 "C07": dict(cat="model_checking", ref="§5, §8 C07", technique="symbolic execution of the generated parser with 64-bit symbolic semantic values; attribute-evaluation oracle as a term",
   text="Actions $$ = k0 + sum ci*$i with distinct constants and two union fields; on each accepting path the returned value must equal the bottom-up evaluation over the derivation tree as an SMT term equality for all int64 token values.",
   note=G_NOTE),

 "C04": dict(cat="model_checking", ref="§8 C04", technique="symbolic execution of CheckAndResolveConflict on one two-candidate cell (all precedence/associativity/order combinations) + symbolic execution of generated operator-grammar parsers against a precedence-climbing reference",
   text="(U) The real conflict-resolution code runs on a symbolic cell: candidate kinds, order, precedence levels and associativities are solver variables and the statement's resolution table is asserted. (G) Parsers emitted for operator grammars are explored over N token codes and must agree with a precedence-climbing reference on verdict, value term and error position.",
   note=G_NOTE + " Representation invariant assumed for U: one associativity per precedence level; cells with three or more candidates and reduce/reduce between two rules with precedence are outside the claim."),
 "C08": dict(cat="model_checking", ref="§8 C08", technique="symbolic execution of the four generated Go variants inside one harness on the same symbolic input; numbering-free outcome comparison",
   text="go, go -u, go -o and go -o -u parsers of one grammar, each generated through the real entry point, run on the same symbolic abstract input (terminal indices incl. end of input and a non-token; symbolic values); verdict, request count, reduction log and value term must coincide on every path.",
   note=G_NOTE + " Go vs TypeScript: both emitted parsers run on the same symbolic input inside one path (gosym + tsmini)."),
 "C11": dict(cat="model_checking", ref="§8 C11", technique="symbolic execution of the emitted translate()/TraceTranslate()/Action() for an unconstrained integer code",
   text="For every corpus grammar the emitted translate(c) is executed for an unconstrained int64 c: each declared code maps to its own symbol, -1 to the end marker, everything else to the error symbol, which is an error action in every state; the emitted token constants are pairwise distinct and differ from -1.",
   note=G_NOTE + " Covers the declaration mixes present in the corpus (explicit numbers, literals, automatic numbers, %left-only and rule-only tokens)."),
 "C15": dict(cat="model_checking", ref="§8 C15", technique="symbolic execution of parse histories in the generated parser (two symbolic inputs), outcome equality decided by Z3",
   text="Histories [y, x, ParserInit, y] (global mode) and fresh vs. used-and-reinitialised vs. second context (object mode) with both inputs symbolic; the outcome of y must not depend on x.",
   note=G_NOTE + " Real concurrency is not modelled; interleaving is at the granularity of whole parses."),
 "C17": dict(cat="model_checking", ref="§8 C17", technique="symbolic execution of the generated parser with IsTrace on; printed records parsed and checked against the executed actions and the emitted table",
   text="With IsTrace on, every printed line must be a push or a reduction in execution order, carry the text of the rule actually reduced and the triggering lookahead, and every push must be a transition of the table in the same file; checked on all paths over N symbolic token codes.",
   note=G_NOTE + " fmt.Printf is modelled by an output sink (formatting done natively on concrete operands)."),

 "C09": dict(cat="translation_validation", ref="§6, §8 C09", technique="Z3 fixed-point (datalog) characterisation of the canonical LR(0) collection vs. the dumped automaton; symbolic execution of CheckIsExist + closure sort on symbolic item lists",
   text="The item sets and GoTo transitions the real generator produced are decided by Z3's datalog engine against Horn rules characterising the canonical LR(0) collection (eleven 'bad' relations must be empty); the de-duplication kernel is additionally executed symbolically on symbolic item lists.",
   note="Trusted base: Horn rules in tool/checks/c09.go, Z3 datalog (cross-checked with z3 5.1.0 in thorough), overlay dump helper; gosym for the unit part. Corpus: fixed + seeded random (+ all tiny grammars in thorough)."),
 "C13": dict(cat="model_checking", ref="§8 C13", technique="symbolic execution of Lex (coroutine) + Parse over symbolic ASCII bytes and of the declaration/rule parser over symbolic token kinds, with unwinding assertions; unwinding failures confirmed by running the real CLI under a deadline",
   text="Termination as an unwinding assertion: every loop of the real lexer and grammar-file parser is bounded (300) while the input is seed + L unconstrained ASCII bytes, or a stream of N tokens of any kind followed by the end of the stream. A path that exceeds the bound is rendered to a file and the real CLI is run on it under a 10 s deadline; only a real hang is reported.",
   note="Trusted base: gosym incl. its coroutine model of the lexer goroutine and ASCII models of utf8/unicode; bounded suffix lengths; generation after a successful Parse is outside (covered for corpus grammars by other checks)."),

 "C12": dict(cat="model_checking", ref="§8 C12", technique="symbolic execution of CalculateEpsilonClosure/CalculateCanTerminate on symbolic grammars (guarded pointers) against bit-mask least fixpoints; symbolic execution of the visitors + BuildLALR1 on ASTs with solver-chosen symbols",
   text="Both fixpoints run on grammars whose every symbol is a solver choice and are compared with reference least fixpoints; the accept/refuse verdict of the real visitors + BuildLALR1 is compared, for every small rule set over {tokens, defined/undefined/declared-only/undeclared names}, with the statement's criterion (undefined symbol or unproductive nonterminal).",
   note="Trusted base: gosym (guarded choice values for pointers), Z3, the reference fixpoints in the harnesses. Bounded grammar shapes (R rules, rhs length) as listed in the evidence."),
 "C14": dict(cat="model_checking", ref="§8 C14", technique="symbolic execution of the whole generation through TemplateGenFromString/TsGenFromString with the iteration order of one solver-chosen map-range instance symbolic (schedule = map order); differences confirmed by repeated native runs",
   text="Go's randomised map order is made a solver variable: the whole generation runs in the engine once in insertion order and once with one dynamic map-iteration instance (chosen by the solver among all instances of the run) in an arbitrary order; the data handed to the template / written to the file must be identical. Covers every map-range instance of the run, one deviation at a time.",
   note="Trusted base: gosym, event-recorder models of os.Create/WriteString/Close and template.Execute, native regexp on concrete strings. Simultaneous deviations at two instances and non-map sources of nondeterminism are outside the claim."),

 "C19": dict(cat="model_checking", ref="§8 C19", technique="symbolic execution of TemplateGenFromString/TsGenFromString with a symbolic fault flag at the entry of every input-dependent step and event-recorder models of the file operations; native CLI runs with a pre-existing file as confirmation",
   text="Fault points become solver variables: each step of the two generation entry points that can fail because of the input may raise a panic under a symbolic flag; the recorded file events must show no create/write before a failure and a complete create-write-close sequence on success (TS: epilogue written last). Real input-caused failures are additionally run in the engine and through the natively built CLI with byte comparison of a pre-existing file.",
   note="Trusted base: gosym, the event-recorder models of os.Create/WriteString/Close/template.Execute, the list of fault sites in tool/checks/c19.go (a renamed step is reported as inconclusive). File-system failures are outside the claim."),

 "C10": dict(cat="model_checking", ref="§8 C10", technique="symbolic execution of Lex (coroutine) + Parse + RootVistor.Process on renderings of corpus specifications with symbolic whitespace / comment bodies / optional ';' at each lexical gap; comparison with tables generated from the specification",
   text="The real lexer, grammar-file parser and declaration/rule visitors run in the engine on the canonical rendering of each corpus specification and on renderings with unconstrained whitespace bytes, comments with unconstrained ASCII bodies or optional ';' inserted at one lexical gap; the rules (symbols, %prec, action text), start symbol, token numbers, tags, precedence levels, prologue, %union body and epilogue that yaccgo will work on must equal the specification on every path.",
   note="Trusted base: gosym (coroutine model, ASCII models of utf8/unicode), the expectation tables generated by tool/checks/c10.go from the corpus specification. One gap at a time; layout inside code bodies is content, not layout."),
}

na = {
 "C16": "compilability of emitted text is decided by the Go/TS front ends, not expressible as a bounded solver query over yaccgo's code (symbolic strings through text/template, fmt, regexp are out of reach); see DESIGN.md §11",
 "C18": "debug listing / DOT text is rendered through fmt and gographviz from grammar-derived data only; no input for a solver to range over; see DESIGN.md §11",
}

m = {
 "version": 1,
 "setup_cmd": f"cd /verif/tool && {ENV} go build -o /verif/bin/vcheck ./cmd/vcheck",
 "hooks": {"guard": "verif", "enable": "no source hooks: harnesses are injected by go/packages Overlay and go build/test -overlay from /verif/harness; nothing under /repo is guarded",
           "baseline_off_cmd": "cd /repo && GOFLAGS=-mod=mod GOPROXY=off go test -vet=off -count=1 ./...", "source_commits": [], "add_only": True},
 "engines": [
   {"name": "gosym", "path": "/verif/tool/gosym", "serves_properties": sorted(k for k in checks if k != "C03"), "kind_free_text": "own symbolic executor for go/ssa (x/tools v0.29.0): bit-vector terms, concrete heap, forking by re-execution, Z3 4.8.12 over a pipe"},
   {"name": "tsmini", "path": "/verif/tool/tsmini", "serves_properties": ["C01", "C02", "C06", "C07", "C08", "C11"], "kind_free_text": "front end + symbolic evaluator for the TypeScript subset yaccgo emits, on gosym's term/solver layer; replay under node 20 after blanking type annotations"},
   {"name": "horn", "path": "/verif/tool/checks/horn.go", "serves_properties": ["C03"], "kind_free_text": "Z3 fixed-point (datalog) Horn specifications decided against artefacts dumped by the natively run generator"},
 ],
 "checks": [], "not_applicable": [], "notes": "see DESIGN.md; exit codes: 0 held within bound, 1 + VIOLATION line, 2 INCONCLUSIVE",
}
for pid in props:
    if pid in checks:
        c = checks[pid]
        m["checks"].append({
          "property_id": pid,
          "quick_cmd": f"/verif/bin/vcheck run {pid} --tier quick",
          "thorough_cmd": f"/verif/bin/vcheck run {pid} --tier thorough",
          "evidence_file": f"/verif/evidence/{pid}.json",
          "replay_cmd_template": "/verif/bin/vcheck replay {path}",
          "engine": "horn" if pid == "C03" else "gosym",
          "level_claimed": {"category": c["cat"], "text": c["text"], "design_ref": c["ref"]},
          "level_note": c["note"], "technique": c["technique"],
        })
    else:
        m["not_applicable"].append({"property_id": pid, "reason": na.get(pid, "check not built yet (build in progress)")})
json.dump(m, open("/verif/MANIFEST.json", "w"), indent=1)
print("checks:", [c["property_id"] for c in m["checks"]])
